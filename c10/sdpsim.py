"""C10, SDP / SDPS half: real SDP / SDPS classes + protocol classes + SerialDevice / UsbDevice against the ROM model."""
from __future__ import annotations

import hashlib
import random
import struct

from simkit.core import EventLog, HarnessError, digest
from simkit.simtime import CLOCK

N = None


def init(M) -> None:
    """Called from c10.sim.worker_init after the seams are installed."""
    global N
    if N is not None:
        return

    class NS:
        pass

    N = NS()
    from spsdk.sdp.interfaces.uart import SdpUARTInterface
    from spsdk.sdp.interfaces.usb import SdpUSBInterface
    from spsdk.sdp.protocol import bulk_protocol
    from spsdk.sdp.sdp import SDP
    from spsdk.sdp.sdps import SDPS

    N.SDP = SDP
    N.SDPS = SDPS
    N.SdpUARTInterface = SdpUARTInterface
    N.SdpUSBInterface = SdpUSBInterface
    N.bulk = bulk_protocol
    N.hid_report_default = dict(bulk_protocol.HID_REPORT)
    N.M = M


def gen_bytes(seed: int, n: int) -> bytes:
    out = bytearray()
    i = 0
    while len(out) < n:
        out += hashlib.sha256(b"sdp%d:%d" % (seed, i)).digest()
        i += 1
    return bytes(out[:n])


class Run:
    def __init__(self, plan: dict) -> None:
        self.plan = plan
        self.log = EventLog(keep=300)
        self.records: list = []
        self.faults: dict = {}
        self.extra: dict = {}
        self.probes: dict = {}
        self.trace: list = []

    def violation(self, oracle, site, msg, detail=None):
        self.records.append({"oracle": oracle, "site": site, "msg": msg, "detail": detail})
        self.log.add("violation", oracle, site)

    def probe(self, k, n=1):
        self.probes[k] = self.probes.get(k, 0) + n

    def execute(self) -> dict:  # noqa: C901 pylint: disable=too-many-branches,too-many-statements,too-many-locals
        from c10 import link as lk
        from c10 import sdpdev

        M = N.M
        p = self.plan
        kn = p["knobs"]
        CLOCK.reset()
        # SDPS.configure() mutates a process-global report table; every run starts from the shipped defaults
        N.bulk.HID_REPORT.clear()
        N.bulk.HID_REPORT.update(N.hid_report_default)
        if p["proto"] == "sdps":
            return self.execute_sdps()
        core = sdpdev.SdpCore(kn)
        if p["transport"] == "uart":
            eng = sdpdev.SdpUart(core, kn)
            link = lk.Link("uart", eng, kn, self.log)
            lk.SimSerial.link = link
            dev = M.SerialDevice(port="SIM", timeout=kn["timeout_ms"], baudrate=115200)
            iface = N.SdpUARTInterface(dev)
        else:
            eng = sdpdev.SdpHid(core, kn)
            link = lk.Link("hid", eng, kn, self.log)
            lk.SimUsbSio.link = link
            dev = M.UsbDevice(vid=0x15A2, pid=0x0073, path=b"SIM", timeout=kn["timeout_ms"])
            iface = N.SdpUSBInterface(dev)
        sdp = N.SDP(iface, cmd_exception=bool(kn.get("cmd_exception")))
        if not sdp.is_opened:
            sdp.open()
        timeout_us = kn["timeout_ms"] * 1000
        for k, op in enumerate(p["ops"]):
            name = op["op"]
            fp = lk.FaultPlan()
            core.err_plan = {}
            for f in p.get("faults", []):
                if f.get("op") != k:
                    continue
                if f["kind"] == "dev_err":
                    core.err_plan[core.cmd_count + f.get("cmd", 0)] = f["status"]
                else:
                    (fp.d2h if f.get("dir", "d2h") == "d2h" else fp.h2d).setdefault(f["pos"], []).append(f)
            link.new_op(fp)
            link.max_io_calls = 40 * (op.get("len", 0) // 64 + 10) + 2000
            h0, d0 = len(core.history), len(core.data_in)
            fired0 = dict(core.fired)
            t0 = CLOCK.now_us
            expect = None
            expect_raise = None
            data = None
            if name == "read":
                expect = core.read_mem(op["addr"], op["len"])
                call = lambda: sdp.read(op["addr"], op["len"], op.get("fmt", 32))  # noqa: E731
                exp_hist = [("read", op["addr"], op["len"], op.get("fmt", 32))]
            elif name == "write":
                call = lambda: sdp.write(op["addr"], op["value"], op["count"], op.get("fmt", 32))  # noqa: E731
                exp_hist = [("write", op["addr"], op["value"], op["count"], op.get("fmt", 32), True)]
            elif name == "read_safe":
                # the validating wrapper: a misaligned address is refused before anything is sent; an omitted length means
                # one unit of the data format; the length is rounded up to whole units on request
                unit = op["fmt"] // 8
                call = lambda: sdp.read_safe(op["addr"], op.get("len") or None, op["fmt"], bool(op.get("align")))  # noqa: E731
                if op["addr"] % unit:
                    expect_raise, exp_hist = "SdpError", []
                else:
                    ln = op.get("len") or unit
                    if op.get("align"):
                        ln = -(-ln // unit) * unit
                    expect = core.read_mem(op["addr"], ln)
                    exp_hist = [("read", op["addr"], ln, op["fmt"])]
            elif name == "write_safe":
                unit = op["fmt"] // 8
                call = lambda: sdp.write_safe(op["addr"], op["value"], op["count"], op["fmt"])  # noqa: E731
                if op["addr"] % unit:
                    expect_raise, exp_hist = "SdpError", []
                else:
                    cnt = min(-(-op["count"] // unit) * unit, 4)
                    exp_hist = [("write", op["addr"], op["value"], cnt, op["fmt"], True)]
            elif name in ("write_file", "write_dcd", "write_csf"):
                data = gen_bytes(op["dseed"], op["len"])
                fn = getattr(sdp, name)
                call = lambda: fn(op["addr"], data)  # noqa: E731
                exp_hist = [(name, op["addr"], len(data), True)]
            elif name == "skip_dcd":
                call = sdp.skip_dcd
                exp_hist = [("skip_dcd", True)]
            elif name == "jump":
                call = lambda: sdp.jump_and_run(op["addr"])  # noqa: E731
                exp_hist = [("jump", op["addr"])]
            elif name == "read_status":
                call = sdp.read_status
                exp_hist = [("error_status",)]
                expect = core.error_status
            else:
                raise HarnessError(name)
            try:
                ret = call()
                outcome = ("ret", ret)
            except lk.Unbounded as exc:
                outcome = ("unbounded", str(exc))
            except M.SPSDKError as exc:
                outcome = ("spsdk_exc", type(exc).__name__)
            except Exception as exc:  # pylint: disable=broad-except
                import traceback

                fn_ = "?"
                for fr in traceback.extract_tb(exc.__traceback__):
                    if "/spsdk/" in fr.filename:
                        fn_ = f"{fr.filename.rsplit('/', 1)[-1]}:{fr.name}"
                outcome = ("other_exc", f"{type(exc).__name__}@{fn_}", traceback.format_exc()[-1200:])
            dt = CLOCK.now_us - t0
            dev_fired = {kk: v - fired0.get(kk, 0) for kk, v in core.fired.items() if v - fired0.get(kk, 0)}
            for kk, v in list(fp.fired.items()) + list(dev_fired.items()):
                self.faults[kk] = self.faults.get(kk, 0) + v
            for kk, v in fp.extra_fired.items():
                self.extra[kk] = self.extra.get(kk, 0) + v
            faulted = bool(fp.fired) or bool(dev_fired)
            extra = bool(fp.extra_fired)
            hist = core.history[h0:]
            datas = core.data_in[d0:]
            where = f"op {k} sdp.{name}({', '.join(f'{a}={v}' for a, v in op.items() if a != 'op')}) over {p['transport']}"
            self.log.add("op", k, name, outcome[0], _sig(outcome[1]), str(sdp.status_code), dt, len(hist), sorted(fp.fired), sorted(dev_fired))
            if len(self.trace) < 40:
                self.trace.append([k, name, outcome[0], _sig(outcome[1]), str(sdp.status_code), dt, sorted(fp.fired) + sorted(dev_fired)])
            if outcome[0] == "other_exc" and not extra:
                self.violation("undocumented-exception", "sdp:" + outcome[1], f"{where}: raised {outcome[1]} instead of a documented SPSDK error", detail=outcome[2])
            if outcome[0] == "unbounded" and not extra:
                self.violation("unbounded", "sdp:" + name, f"{where}: {outcome[1]}")
            nfr = op.get("len", 0) // 64 + 12
            if dt > nfr * 2 * timeout_us + nfr * kn.get("slow_us", 0) + 1_000_000 and not extra:
                self.violation("unbounded-time", "sdp:" + name, f"{where}: took {dt} us of simulated time")
            success = outcome[0] == "ret" and outcome[1] is not None and outcome[1] is not False
            if success and not extra:
                # postconditions of a reported success hold with or without faults
                if name in ("read", "read_safe") and bytes(outcome[1]) != expect:
                    self.violation("wrong-success", "sdp:read:data", f"{where}: returned {len(outcome[1])} bytes, the device holds {len(expect)} bytes" + (" (content differs)" if len(outcome[1]) == len(expect) else ""))
                if name == "read_status" and outcome[1] != expect:
                    self.violation("wrong-success", "sdp:read_status:value", f"{where}: returned {outcome[1]:#x}, the device sent {expect:#x}")
                if data is not None:
                    got = [d for d in datas if d[0] == name]
                    if len(got) != 1 or got[0][1] != op["addr"] or got[0][2] != data:
                        self.violation("wrong-success", f"sdp:{name}:data", f"{where}: reported success but the device received {[(g[1], len(g[2])) for g in got]} (expected one transfer of {len(data)} bytes to {op['addr']:#x}, same content)")
                if [h for h in hist] != exp_hist:
                    self.violation("wrong-success", f"sdp:{name}:effect", f"{where}: reported success but the device executed {hist!r}, expected {exp_hist!r}")
            if expect_raise and not extra:
                # refused by the host's own validation: the documented error, and the device must not have seen anything
                if outcome[:2] != ("spsdk_exc", expect_raise) or hist:
                    self.violation("fault-free", f"sdp:{name}:validation", f"{where}: expected {expect_raise} before anything is sent, got {outcome[:2]!r}, device executed {hist!r}")
                self.probe("sdp_call_refused_by_validation")
                continue
            if not faulted and not extra:
                if outcome[0] != "ret":
                    if outcome[0] == "spsdk_exc":
                        self.violation("fault-free", f"sdp:{name}:raised", f"{where}: raised {outcome[1]} on a fault-free link")
                elif not success:
                    self.violation("fault-free", f"sdp:{name}:return", f"{where}: returned {outcome[1]!r} on a fault-free link")
                want_status = "HAB_IS_LOCKED" if core.hab_locked else "SUCCESS"
                got_status = getattr(sdp.status_code, "name", None) or getattr(sdp.status_code, "label", str(sdp.status_code))
                if outcome[0] == "ret" and success and want_status.replace("_", "").lower() not in str(got_status).replace("_", "").replace(" ", "").lower() and name not in ("write_file", "write_dcd", "write_csf"):
                    self.violation("fault-free", f"sdp:{name}:status", f"{where}: status_code {got_status} but the device reported HAB {'locked' if core.hab_locked else 'open'}")
            if faulted or extra:
                self.probe("sdp_op_with_fault")
                self.probe("sdp_fault_surfaced_as_" + (outcome[1] if outcome[0] == "spsdk_exc" else ("failure_return" if not success else "masked")))
            if faulted or extra or outcome[0] != "ret":
                try:
                    sdp.close()
                except Exception:  # pylint: disable=broad-except
                    pass
                link.new_op(lk.FaultPlan())
                link.drain()
                sdp.open()
            if len(self.records) > 12:
                break
        return self.result(len(p["ops"]))

    def execute_sdps(self) -> dict:
        from c10 import link as lk
        from c10 import sdpdev

        M = N.M
        p = self.plan
        kn = p["knobs"]
        eng = sdpdev.SdpsHid(kn)
        link = lk.Link("hid", eng, kn, self.log)
        lk.SimUsbSio.link = link
        dev = M.UsbDevice(vid=0x1FC9, pid=0x0135, path=b"SIM", timeout=kn["timeout_ms"])
        iface = N.SdpUSBInterface(dev)
        sdps = N.SDPS(iface, p["family"])
        sdps_families()
        family = p["family"]

        class Info:
            pass

        info = Info()
        info.no_cmd, info.hid_pack_size = SDPS_ROM[family]
        for k, op in enumerate(p["ops"]):
            if op["op"] == "set_family":
                # the same object goes on with another ROM (public setter)
                sdps.family = op["family"]
                family = op["family"]
                info.no_cmd, info.hid_pack_size = SDPS_ROM[family]
                self.probe("sdps_family_changed_on_a_used_object")
                continue
            data = gen_bytes(op["dseed"], op["len"])
            sdps.open()
            link.new_op(lk.FaultPlan())
            n0 = len(eng.reports)
            try:
                sdps.write_file(data)
                outcome = ("ret", None)
            except M.SPSDKError as exc:
                outcome = ("spsdk_exc", type(exc).__name__)
            except Exception as exc:  # pylint: disable=broad-except
                outcome = ("other_exc", type(exc).__name__)
            reps = eng.reports[n0:]
            where = f"op {k} sdps.write_file(len={len(data)}) family {family}"
            self.log.add("sdps", k, outcome[0], len(reps), [len(r) for r in reps[:3]])
            if outcome[0] != "ret":
                self.violation("fault-free", "sdps:write_file:" + outcome[0], f"{where}: ended with {outcome}")
                continue
            body = reps
            if not info.no_cmd:
                if not reps or reps[0][0] != 1:
                    self.violation("fault-free", "sdps:command", f"{where}: no command report precedes the data")
                    continue
                sig, _tag, length = struct.unpack_from("<3I", reps[0], 1)
                if sig != 0x43544C42 or length != len(data):
                    self.violation("fault-free", "sdps:command", f"{where}: command block announces signature {sig:#x} length {length}, expected BLTC / {len(data)}")
                body = reps[1:]
            if any(r[0] != 2 for r in body):
                self.violation("fault-free", "sdps:report-id", f"{where}: data travelled in reports with ids {sorted({r[0] for r in body})}")
            if any(len(r) - 1 > info.hid_pack_size for r in body):
                self.violation("packet-too-large", "sdps", f"{where}: a report of {max(len(r) for r in body) - 1} payload bytes exceeds the ROM's {info.hid_pack_size}")
            got = b"".join(r[1:] for r in body)
            if got[: len(data)] != data or any(got[len(data) :]) or len(got) - len(data) >= info.hid_pack_size:
                self.violation("fault-free", "sdps:data", f"{where}: the ROM received {len(got)} bytes that are not the file followed by zero padding of less than one report")
            sdps.close()
        return self.result(len(p["ops"]))

    def result(self, nops: int) -> dict:
        p = self.plan
        fired = sum(self.faults.values()) + sum(self.extra.values())
        shape = [[o["op"], (o.get("len") or 0) % 64, (o.get("len") or 0) // 1024] for o in p["ops"]]
        fsig = sorted((f["kind"], f.get("op"), f.get("pos")) for f in p.get("faults", []))
        ksig = [p["proto"], p.get("transport"), p.get("family"), sorted(p["knobs"].items())]
        seen, out = set(), []
        for r in self.records:
            kk = (r["oracle"], r["site"])
            if kk not in seen:
                seen.add(kk)
                out.append(r)
        return {
            "records": out,
            "digest": self.log.digest(),
            "sig": [digest(ksig)[:16], digest(fsig)[:16], digest(shape)[:16]],
            "nontrivial": nops >= 2 or fired > 0,
            "faults": self.faults,
            "probes": self.probes,
            "obs": {**{"extra_" + k: v for k, v in self.extra.items()}, "sdp_api_calls": nops},
            "sim_time_us": CLOCK.now_us,
            "steps": self.log.n,
            "trace": self.trace,
        }


def _sig(v):
    if isinstance(v, (bytes, bytearray)):
        return ["bytes", len(v), hashlib.sha256(bytes(v)).hexdigest()[:8]]
    return str(v)[:50]


# ----------------------------------------------------------------------------------------------

SDPS_FAMILIES = None
SDPS_ROM: dict = {}  # family -> (no_cmd, hid_pack_size), read from the database files, not through SPSDK


def sdps_families() -> list:
    """Families speaking SDPS, read from the repository's database files (plan generation must not import spsdk)."""
    global SDPS_FAMILIES
    if SDPS_FAMILIES is None:
        import os
        import re

        from simkit.core import REPO

        out = []
        d = os.path.join(REPO, "spsdk", "data", "devices")
        for name in sorted(os.listdir(d)):
            f = os.path.join(d, name, "database.yaml")
            if not os.path.exists(f):
                continue
            txt = open(f, encoding="utf-8").read()
            if re.search(r"protocol:\s*sdps", txt) and not re.search(r"^alias:", txt, re.M):
                out.append(name)
                blk = txt[txt.index("protocol: sdps") :][:800]
                m1 = re.search(r"no_cmd:\s*(\w+)", blk)
                m2 = re.search(r"hid_pack_size:\s*(\d+)", blk)
                SDPS_ROM[name] = (m1.group(1).lower() != "false" if m1 else True, int(m2.group(1)) if m2 else 1020)
        SDPS_FAMILIES = out or ["mimx8ulp"]
    return SDPS_FAMILIES


def gen_op(rng: random.Random) -> dict:
    name = rng.choice(["read"] * 4 + ["write"] * 3 + ["write_file"] * 3 + ["write_dcd", "write_csf", "skip_dcd", "jump", "read_status"] + ["read_safe"] * 2 + ["write_safe"] * 2)
    addr = rng.choice([0, 0x2000_0000, 0x0090_0000, 4 * rng.randrange(1 << 28)])
    if name == "read_safe":
        return {"op": name, "addr": addr + rng.choice([0, 0, 0, 1, 2, 3]), "len": rng.choice([0, 0, 1, 2, 3, 4, 5, 63, 64, 65, 130, rng.randint(1, 600)]), "fmt": rng.choice([8, 16, 32]), "align": rng.random() < 0.5}
    if name == "write_safe":
        return {"op": name, "addr": addr + rng.choice([0, 0, 0, 1, 2, 3]), "value": rng.randrange(1 << 32), "count": rng.choice([1, 2, 3, 4, 4, 5, 8]), "fmt": rng.choice([8, 16, 32])}
    if name == "read":
        return {"op": name, "addr": addr, "len": rng.choice([1, 4, 63, 64, 65, 128, 129, 1000, rng.randint(1, 3000)]), "fmt": rng.choice([8, 16, 32])}
    if name == "write":
        return {"op": name, "addr": addr, "value": rng.randrange(1 << 32), "count": rng.choice([1, 2, 4]), "fmt": rng.choice([8, 16, 32])}
    if name in ("write_file", "write_dcd", "write_csf"):
        return {"op": name, "addr": addr, "len": rng.choice([1, 16, 1023, 1024, 1025, 2048, 2049, rng.randint(1, 6000)]), "dseed": rng.randrange(1 << 30)}
    if name == "jump":
        return {"op": name, "addr": addr}
    return {"op": name}


def gen_plan(family: str, i: int, rng: random.Random, tier: str) -> dict:
    if family == "sdps":
        ops = []
        for _ in range(rng.randint(1, 4)):
            if ops and rng.random() < 0.3:
                ops.append({"op": "set_family", "family": rng.choice(sdps_families())})
            ops.append({"op": "write_file", "len": rng.choice([1, 1019, 1020, 1021, 1024, 1025, 2040, 4096, rng.randint(1, 9000)]), "dseed": rng.randrange(1 << 30)})
        return {"proto": "sdps", "family": rng.choice(sdps_families()), "knobs": {"timeout_ms": 1000, "latency_us": 100}, "ops": ops, "faults": []}
    transport = rng.choice(["uart", "hid"])
    timeout_ms = rng.choice([100, 500, 2000])
    knobs = {
        "timeout_ms": timeout_ms, "byte_us": rng.choice([87, 10]), "latency_us": rng.choice([50, 200, 2000]), "slow_us": rng.choice([0, 0, int(timeout_ms * 600)]),
        "hab_locked": rng.random() < 0.3, "cmd_exception": rng.random() < 0.25, "error_status": rng.choice([0xF0F0F0F0, 0x33333333, 0]),
    }
    ops = [gen_op(rng) for _ in range(rng.randint(1, 10))]
    plan = {"proto": "sdp", "transport": transport, "knobs": knobs, "ops": ops, "faults": []}
    if family == "sdp_faulty":
        for _ in range(rng.choice([1, 1, 2, 3])):
            k = rng.randrange(len(ops))
            ln = ops[k].get("len", 0)
            if rng.random() < 0.3:
                plan["faults"].append({"op": k, "kind": "dev_err", "cmd": 0, "status": rng.choice([0, 0x33333333, 0x12343412, 0xFFFFFFFF])})
            elif transport == "uart":
                plan["faults"].append({"op": k, "dir": "d2h", "pos": rng.choice([rng.randrange(8), rng.randrange(max(1, ln + 8))]), "kind": rng.choice(["trunc", "trunc", "drop", "stall"]), "us": 10_000_000})
            else:
                kind = rng.choice(["drop", "drop", "trunc", "short", "stall"])
                f = {"op": k, "dir": "d2h", "pos": rng.randrange(0, 3 + ln // 64), "kind": kind, "us": 10_000_000}
                if kind == "short":
                    # SDP data reports carry no length field, so a shortened data report is as undetectable for any
                    # host as a flipped byte; only the 4-byte HAB / status words are shortened
                    f["len"] = rng.choice([0, 1, 2, 3, 4])
                    f["pos"] = 0 if ops[k]["op"] in ("read", "read_safe") else rng.randrange(2)
                plan["faults"].append(f)
    return plan
