"""Reference model of the i.MX ROM serial download protocol (SDP) and of SDPS, over UART bytes and HID reports.

Written from the protocol definition (DESIGN.md appendix A). The model records what it executed.
"""
from __future__ import annotations

import struct

HAB_OPEN = 0x56787856
HAB_CLOSED = 0x12343412
WRITE_DATA_OK = 0x128A8A12
WRITE_FILE_OK = 0x88888888
SKIP_DCD_OK = 0x900DD009

T_READ, T_WRITE, T_WRITE_FILE, T_ERROR_STATUS, T_WRITE_CSF, T_WRITE_DCD, T_SKIP_DCD, T_JUMP = 0x0101, 0x0202, 0x0404, 0x0505, 0x0606, 0x0A0A, 0x0C0C, 0x0B0B


class SdpCore:
    def __init__(self, knobs: dict) -> None:
        self.mem: dict[int, int] = {}
        self.hab_locked = bool(knobs.get("hab_locked"))
        self.history: list = []
        self.data_in: list = []
        self.error_status = knobs.get("error_status", 0xF0F0F0F0)
        self.err_plan: dict = {}  # command index -> replacement status word
        self.cmd_count = 0
        self.fired: dict = {}
        self.pending = None  # (tag, addr, count, buffer)

    def fire(self, k):
        self.fired[k] = self.fired.get(k, 0) + 1

    def read_mem(self, addr: int, n: int) -> bytes:
        return bytes(self.mem.get(a, (a * 7 + 3) & 0xFF) for a in range(addr, addr + n))

    def hab(self) -> int:
        return HAB_CLOSED if self.hab_locked else HAB_OPEN

    def status(self, ok: int, idx: int) -> int:
        if idx in self.err_plan:
            self.fire("dev_error_status")
            return self.err_plan[idx]
        return ok

    def command(self, pkt: bytes):
        """Returns ("reply", [("hab", word)] + [("data", bytes)] + [("status", word)]) or ("need_data", n)."""
        tag, addr, fmt, count, value, _r = struct.unpack(">HIB2IB", pkt[:16])
        idx = self.cmd_count
        self.cmd_count += 1
        if tag == T_READ:
            self.history.append(("read", addr, count, fmt))
            return "reply", [("hab", self.hab()), ("data", self.read_mem(addr, count))]
        if tag == T_WRITE:
            st = self.status(WRITE_DATA_OK, idx)
            if st == WRITE_DATA_OK:
                nbytes = min(count, 4)
                for i, b in enumerate(value.to_bytes(4, "little")[:nbytes]):
                    self.mem[addr + i] = b
            self.history.append(("write", addr, value, count, fmt, st == WRITE_DATA_OK))
            return "reply", [("hab", self.hab()), ("status", st)]
        if tag in (T_WRITE_FILE, T_WRITE_DCD, T_WRITE_CSF):
            self.pending = (tag, addr, count, bytearray(), idx)
            if count == 0:
                return self.finish_data()
            return "need_data", count
        if tag == T_ERROR_STATUS:
            self.history.append(("error_status",))
            return "reply", [("hab", self.hab()), ("status", self.error_status)]
        if tag == T_SKIP_DCD:
            st = self.status(SKIP_DCD_OK, idx)
            self.history.append(("skip_dcd", st == SKIP_DCD_OK))
            return "reply", [("hab", self.hab()), ("status", st)]
        if tag == T_JUMP:
            self.history.append(("jump", addr))
            return "reply", [("hab", self.hab())]
        self.history.append(("unknown", tag))
        return "reply", []

    def data(self, chunk: bytes):
        tag, addr, count, buf, idx = self.pending
        buf.extend(chunk)
        if len(buf) >= count:
            return self.finish_data()
        return "need_data", count - len(buf)

    def finish_data(self):
        tag, addr, count, buf, idx = self.pending
        self.pending = None
        data = bytes(buf[:count])
        ok_word = WRITE_FILE_OK if tag == T_WRITE_FILE else WRITE_DATA_OK
        st = self.status(ok_word, idx)
        name = {T_WRITE_FILE: "write_file", T_WRITE_DCD: "write_dcd", T_WRITE_CSF: "write_csf"}[tag]
        if st == ok_word:
            for i, b in enumerate(data):
                self.mem[addr + i] = b
        self.data_in.append((name, addr, data, bytes(buf[count:])))
        self.history.append((name, addr, len(data), st == ok_word))
        return "reply", [("hab", self.hab()), ("status", st)]


class SdpUart:
    """Raw bytes: 16-byte commands, data bytes, 4-byte big-endian words back."""

    def __init__(self, core: SdpCore, knobs: dict) -> None:
        self.core = core
        self.rx = bytearray()
        self.need = 0

    def reset_protocol(self) -> None:
        self.rx.clear()
        self.need = 0
        self.core.pending = None

    def feed(self, data: bytes, t_us: int) -> list:
        self.rx.extend(data)
        out = []
        while True:
            if self.need:
                if not self.rx:
                    break
                chunk = bytes(self.rx[: self.need])
                del self.rx[: len(chunk)]
                kind, val = self.core.data(chunk)
            else:
                if len(self.rx) < 16:
                    break
                pkt = bytes(self.rx[:16])
                del self.rx[:16]
                kind, val = self.core.command(pkt)
            if kind == "need_data":
                self.need = val
                continue
            self.need = 0
            first = True
            for what, v in val:
                b = v if what == "data" else struct.pack(">I", v)
                out.append((b, "slow") if first else b)
                first = False
        return out


class SdpHid:
    """HID reports: out id 1 = command (16 bytes + padding), id 2 = data; in id 3 = HAB word, id 4 = data / status (<= 64 bytes)."""

    def __init__(self, core: SdpCore, knobs: dict) -> None:
        self.core = core
        self.need = 0
        self.reports_rx: list = []

    def reset_protocol(self) -> None:
        self.need = 0
        self.core.pending = None

    def report(self, data: bytes) -> list:
        if not data:
            return []
        rid, payload = data[0], data[1:]
        self.reports_rx.append((rid, len(payload)))
        if rid == 1:
            kind, val = self.core.command(payload[:16])
        elif rid == 2 and self.need:
            kind, val = self.core.data(payload[: self.need])
        else:
            return []
        if kind == "need_data":
            self.need = val
            return []
        self.need = 0
        out = []
        first = True
        for what, v in val:
            if what == "hab":
                reps = [bytes([3]) + struct.pack(">I", v)]
            elif what == "status":
                reps = [bytes([4]) + struct.pack(">I", v) + bytes(60)]
            else:
                reps = [bytes([4]) + v[i : i + 64].ljust(64, b"\0") for i in range(0, len(v), 64)]
            for r in reps:
                out.append((r, "slow") if first else r)
                first = False
        return out


class SdpsHid:
    """SDPS: the ROM only consumes reports; optional CBW command report first."""

    def __init__(self, knobs: dict) -> None:
        self.reports: list = []
        self.fired: dict = {}

    def reset_protocol(self) -> None:
        pass

    def report(self, data: bytes) -> list:
        self.reports.append(bytes(data))
        return []
