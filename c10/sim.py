"""C10 — bootloader protocols (mboot UART / USB-HID) under a misbehaving link.

Host side entirely real (McuBoot, protocol classes, SerialDevice / UsbDevice); the seam is the
third-party driver boundary (serial.Serial, libusbsio.usbsio) and the `time` module.
"""
from __future__ import annotations

import copy
import os
import hashlib
import random
import struct

from simkit.core import EventLog, HarnessError, ddmin_lists, digest
from simkit.simtime import CLOCK

PROP = "C10"
ISOLATE_RUNS = True  # every run in a forked copy of the worker (simkit.core.run_one)
LEVEL = "fault_enumeration"
BUDGET_S = {"quick": 420, "thorough": 1800}
CHUNK = 25
RULE = (
    "each run = one plan drawn from one integer: transport (UART/HID), max packet size, timing knobs, a history of "
    "1..12 McuBoot/SDP API calls with boundary-straddling lengths, and a fault list (stream position x kind, "
    "device-level error/abort injections); sweep runs enumerate every device-to-host stream position of a short "
    "history for every listed fault kind. Non-trivial = >=2 operations or >=1 fault fired; distinct = distinct "
    "(operation-shape, fault signature, knob signature) triples counted with a set."
)
COMPONENTS = {
    "real": [
        "spsdk.mboot.mcuboot.McuBoot",
        "spsdk.mboot.protocol.serial_protocol / bulk_protocol",
        "spsdk.mboot.commands (CmdPacket, responses)",
        "spsdk.mboot.interfaces.uart / usb",
        "spsdk.utils.interfaces.device.serial_device.SerialDevice / usb_device.UsbDevice",
        "spsdk.sdp.sdp.SDP, spsdk.sdp.sdps.SDPS and their protocol / interface classes",
    ],
    "stub": ["pyserial Serial (SimSerial)", "libusbsio HID device (SimHid)", "time module (simulated clock)", "device / ROM (reference model in /verif/c10)"],
}
MEASURES = {
    "distinct_schedules": "distinct (transport, packet size, timing knobs) configurations; the host is synchronous, so the interleaving of host and device is fixed by the link timing",
    "distinct_states": "not measured (0)",
    "sim_time_s": "simulated link time: byte / report times, device latency, host time-outs and sleeps",
}
ASSUMPTIONS = [
    "the device model is a protocol-complete peer written from the bootloader protocol definition; it waits for the host's ACK before sending the next frame",
    "CRC-consistent payload corruption is not injected (no framing protocol can detect it, the property does not ask for it)",
    "after an operation that met a fault the history closes, the link drains and the connection is reopened (the property states no recovery)",
    "the announced max packet size is constant for the life of a McuBoot object",
]

_READY = False
M = None  # namespace with spsdk objects


def worker_init() -> None:
    global _READY, M
    if _READY:
        return
    CLOCK.install()
    import serial

    from c10 import link as lk

    serial.Serial = lk.SimSerial
    import libusbsio

    libusbsio.usbsio = lk.SimUsbSio
    import logging

    logging.disable(logging.CRITICAL)

    class NS:
        pass

    M = NS()
    from spsdk.exceptions import SPSDKError
    from spsdk.mboot.interfaces.uart import MbootUARTInterface
    from spsdk.mboot.interfaces.usb import MbootUSBInterface
    from spsdk.mboot.mcuboot import McuBoot
    from spsdk.utils.interfaces.device.serial_device import SerialDevice
    from spsdk.utils.interfaces.device.usb_device import UsbDevice
    from spsdk.utils.interfaces.device import serial_device as sd

    assert sd.Serial is lk.SimSerial, "seam not attached: SerialDevice would use the real pyserial"
    M.SPSDKError = SPSDKError
    M.McuBoot = McuBoot
    M.MbootUARTInterface = MbootUARTInterface
    M.MbootUSBInterface = MbootUSBInterface
    M.SerialDevice = SerialDevice
    M.UsbDevice = UsbDevice
    from simkit.core import assert_repo_spsdk

    assert_repo_spsdk()
    from c10 import sdpsim

    sdpsim.init(M)
    _READY = True


def gen_bytes(seed: int, n: int) -> bytes:
    out = bytearray()
    i = 0
    while len(out) < n:
        out += hashlib.sha256(b"%d:%d" % (seed, i)).digest()
        i += 1
    return bytes(out[:n])


# ----------------------------------------------------------------------------------------------
# session = host stack + link + device


class Session:
    def __init__(self, plan: dict, log: EventLog) -> None:
        from c10 import link as lk
        from c10 import mbootdev as md

        self.lk = lk
        self.md = md
        kn = dict(plan["knobs"])
        self.transport = plan["transport"]
        if self.transport == "uart" and plan.get("long_props", True):
            kn["long_props"] = True
        self.core = md.MbootCore(plan["max_packet"], kn)
        if self.transport == "uart":
            self.engine = md.UartDevice(self.core, kn)
            self.link = lk.Link("uart", self.engine, kn, log)
            lk.SimSerial.link = self.link
            dev = M.SerialDevice(port="SIM", timeout=kn["timeout_ms"], baudrate=115200)
            dev.close()
            self.iface = M.MbootUARTInterface(dev)
        else:
            self.engine = md.HidDevice(self.core, kn)
            self.link = lk.Link("hid", self.engine, kn, log)
            lk.SimUsbSio.link = self.link
            dev = M.UsbDevice(vid=0x1FC9, pid=0x0021, path=b"SIM", timeout=kn["timeout_ms"])
            self.iface = M.MbootUSBInterface(dev)
        self.mb = M.McuBoot(self.iface, cmd_exception=bool(kn.get("cmd_exception")))
        self.timeout_us = kn["timeout_ms"] * 1000

    def open(self) -> None:
        self.mb.open()

    def close(self) -> None:
        self.mb.close()


# ----------------------------------------------------------------------------------------------
# operations: how to call, what the device must have recorded, what the caller must see

U32 = 0xFFFFFFFF


# trust-provisioning style methods: (command tag, operation word(s) in front of the arguments, number of arguments, what the
# call returns).  Operation codes are the protocol's, written out here (not read from SPSDK's enumerations).
TP_METHODS = {
    "tp_hsm_gen_key": (0x16, 3, 6, "list"),
    "tp_oem_gen_master_share": (0x16, 0, 8, "list"),
    "tp_oem_set_master_share": (0x16, 1, 4, "bool"),
    "tp_oem_get_cust_cert_dice_puk": (0x16, 2, 4, "first"),
    "tp_oem_get_cust_dice_response": (0x16, 7, 4, "first"),
    "tp_hsm_store_key": (0x16, 4, 6, "list"),
    "tp_hsm_enc_blk": (0x16, 5, 8, "bool"),
    "tp_hsm_enc_sign": (0x16, 6, 6, "first"),
    "wpc_get_id": (0x16, 0x5000000, 2, "first"),
    "nxp_get_id": (0x16, 0x5000001, 2, "first"),
    "wpc_insert_cert": (0x16, 0x5000002, 4, "zero"),
    "wpc_sign_csr": (0x16, 0x5000003, 4, "first"),
    "dsc_hsm_create_session": (0x16, 0x6000000, 4, "first"),
    "dsc_hsm_enc_blk": (0x16, 0x6000001, 5, "first"),
    "dsc_hsm_enc_sign": (0x16, 0x6000002, 4, "first"),
    "el2go_get_version": (0x20, 1, 0, "list"),
    "el2go_close_device": (0x20, 2, 2, "first"),
    "tp_prove_genuinity": (0x16, None, 2, "first"),
    "tp_set_wrapped_data": (0x16, None, 3, "bool"),
}


def tp_wire(meth: str, a: list):
    """(command tag, parameter words the device must see, kind of return value) of one trust-provisioning style call."""
    tag, opw, _n, rk = TP_METHODS[meth]
    if meth == "tp_prove_genuinity":
        addr, size = a
        return tag, [0xF4 | 3 << 8 | 0x17 << 24, (addr >> 32) & U32, addr & U32, size], rk
    if meth == "tp_set_wrapped_data":
        addr, stage, control = a
        if addr == 0:
            control = 2
        return tag, [0xF0 | 3 << 8 | 0x17 << 24, control << 8 | stage, (addr >> 32) & U32, addr & U32], rk
    return tag, [opw] + [int(x) for x in a], rk


def _frames(n: int, mp: int) -> int:
    return (n + mp - 1) // mp


class OpSpec:
    """Everything the oracle needs about one API call."""

    def __init__(self, s: Session, op: dict) -> None:
        self.s = s
        self.op = op
        self.name = op["op"]
        self.expected_hist: list | None = None  # list of tuples without the trailing status
        self.data_out: bytes | None = None  # bytes the caller sends in a data phase
        self.data_tag: int | None = None
        self.expect_ret = None  # ("bytes", b) | ("value", v) | ("bool",)
        self.frames = 4
        self.call = None
        self.skip_status_mirror = False
        self.build()

    def host_mp(self) -> int:
        return self.s.mb.max_packet_size or self.s.core.max_packet

    def hist(self):
        return self.expected_hist() if callable(self.expected_hist) else self.expected_hist

    def n_frames(self) -> int:
        """Upper estimate of frames/reports exchanged, with the packet size the host actually uses."""
        if self.name == "property_list":
            return 260
        ln = self.op.get("len", 0) + self.op.get("count", 0)
        mult = 3 if (self.s.transport == "hid" and self.name == "read_memory") else 2
        return 12 + _frames(ln, min(self.host_mp(), self.s.core.max_packet)) * mult

    def build(self) -> None:  # noqa: C901  pylint: disable=too-many-branches,too-many-statements
        s, o, md = self.s, self.op, self.s.md
        mb, core = s.mb, s.core
        mp = core.max_packet
        n = self.name
        hid = s.transport == "hid"
        if n == "get_property":
            tag, index = o["tag"], o.get("index", 0)
            self.call = lambda: mb.get_property(tag, index)
            self.expected_hist = [("get_property", tag, index)]
            self.expect_ret = ("value", list(core.props[tag]) if tag in core.props else None)
        elif n == "set_property":
            self.call = lambda: mb.set_property(o["tag"], o["value"])
            self.expected_hist = [("set_property", o["tag"], o["value"])]
            self.expect_ret = ("bool",)
        elif n == "read_memory":
            addr, ln = o["addr"], o["len"]
            mid = o.get("mem_id", 0)
            wire_mid = mid if (mid > 255 or mid == 0) else 0  # ids of mapped external memories are not sent (blhost: "not required")
            self.call = lambda: mb.read_memory(addr, ln, mem_id=mid, fast_mode=bool(o.get("fast")))
            valid = core.mem.region(addr, ln) is not None
            if hid and not o.get("fast"):
                # the host reads in chunks of the packet size *it* uses (it may legally fall back to a smaller one)
                self.expected_hist = lambda: [("read_memory", addr + i, min(self.host_mp(), ln - i), wire_mid) for i in range(0, ln, self.host_mp())]
                if not valid:
                    self.expected_hist = None  # stops at the first refused chunk; checked through status only
            else:
                self.expected_hist = [("read_memory", addr, ln, wire_mid)]
            self.expect_ret = ("bytes", core.mem.read(addr, ln) if valid else None)
            if ln == 0 and hid and not o.get("fast"):
                self.expected_hist, self.expect_ret = [], ("bytes", b"")  # nothing to read: no command is issued
            self.frames = 4 + _frames(ln, mp) * (3 if hid else 1)
        elif n == "write_memory":
            data = gen_bytes(o["dseed"], o["len"])
            mid = o.get("mem_id", 0)
            self.call = lambda: mb.write_memory(o["addr"], data, mem_id=mid)
            self.expected_hist = [("write_memory", o["addr"], len(data), mid if (mid > 255 or mid == 0) else 0)]
            self.data_out, self.data_tag = data, md.C_WRITE_MEMORY
            self.expect_ret = ("bool",)
            self.frames = 4 + _frames(len(data), mp)
        elif n == "fill_memory":
            self.call = lambda: mb.fill_memory(o["addr"], o["len"], o["pattern"])
            self.expected_hist = [("fill_memory", o["addr"], o["len"], o["pattern"])]
            self.expect_ret = ("bool",)
        elif n == "flash_erase_region":
            mid = o.get("mem_id", 0)
            self.call = lambda: mb.flash_erase_region(o["addr"], o["len"], mem_id=mid)
            self.expected_hist = [("flash_erase_region", o["addr"], o["len"], mid if (mid > 255 or mid == 0) else 0)]
            self.expect_ret = ("bool",)
        elif n == "flash_erase_all":
            self.call = lambda: mb.flash_erase_all(mem_id=o.get("mem_id", 0))
            self.expected_hist = [("flash_erase_all", o.get("mem_id", 0))]  # (no address: the id is what selects the memory)
            self.expect_ret = ("bool",)
        elif n == "flash_erase_all_unsecure":
            self.call = lambda: mb.flash_erase_all_unsecure()
            self.expected_hist = [("flash_erase_all_unsecure", 0)]
            self.expect_ret = ("bool",)
        elif n == "receive_sb_file":
            data = gen_bytes(o["dseed"], o["len"])
            self.call = lambda: mb.receive_sb_file(data, check_errors=bool(o.get("check_errors")))
            self.expected_hist = [("receive_sb_file", len(data), hashlib.sha256(data).hexdigest()[:16])]
            self.data_out, self.data_tag = data, md.C_RECEIVE_SB
            self.expect_ret = ("bool",)
            self.frames = 4 + _frames(len(data), mp) * 2
        elif n == "execute":
            self.call = lambda: mb.execute(o["addr"], o["arg"], o["sp"])
            self.expected_hist = [("execute", o["addr"], o["arg"], o["sp"])]
            self.expect_ret = ("bool",)
        elif n == "call":
            self.call = lambda: mb.call(o["addr"], o["arg"])
            self.expected_hist = [("call", o["addr"], o["arg"])]
            self.expect_ret = ("bool",)
        elif n == "configure_memory":
            self.call = lambda: mb.configure_memory(o["addr"], o["mem_id"])
            self.expected_hist = [("configure_memory", o["mem_id"], o["addr"])]
            self.expect_ret = ("bool",)
        elif n == "reliable_update":
            self.call = lambda: mb.reliable_update(o["addr"])
            self.expected_hist = [("reliable_update", o["addr"])]
            self.expect_ret = ("bool",)
        elif n == "flash_program_once":
            data = gen_bytes(o["dseed"], o["len"])
            self.call = lambda: mb.flash_program_once(o["index"], data)
            self.expected_hist = [("program_once", o["index"], data.hex())]
            self.expect_ret = ("bool",)
        elif n == "flash_read_once":
            idx, cnt = o["index"], o["len"]
            self.call = lambda: mb.flash_read_once(idx, cnt)
            self.expected_hist = [("read_once", idx, cnt)]
            self.expect_ret = ("bytes", core.otp.get(idx & 0xFFFFFF, b"\0" * cnt).ljust(cnt, b"\0")[:cnt])
        elif n == "efuse_program_once":
            self.call = lambda: mb.efuse_program_once(o["index"], o["value"], verify=bool(o.get("verify")))
            self.expected_hist = [("program_once", o["index"], struct.pack("<I", o["value"]).hex())]
            if o.get("verify"):
                self.expected_hist.append(("read_once", o["index"] & 0xFFFFFF, 4))
            self.expect_ret = ("bool",)
        elif n == "efuse_read_once":
            idx = o["index"]
            self.call = lambda: mb.efuse_read_once(idx)
            self.expected_hist = [("read_once", idx, 4)]
            self.expect_ret = ("value", struct.unpack("<I", core.otp.get(idx & 0xFFFFFF, b"\0" * 4).ljust(4, b"\0")[:4])[0])
        elif n == "flash_read_resource":
            addr, ln, opt = o["addr"], o["len"], o["option"]
            self.call = lambda: mb.flash_read_resource(addr, ln, opt)
            self.expected_hist = [("read_resource", addr, ln, opt)]
            self.expect_ret = ("bytes", (hashlib.sha256(b"resource%d:%d" % (opt, addr)).digest() * 17)[:ln] if ln <= 512 else None)
            self.frames = 4 + _frames(ln, mp)
        elif n == "kp_enroll":
            self.call = mb.kp_enroll
            self.expected_hist = [("kp_enroll",)]
            self.expect_ret = ("bool",)
        elif n == "kp_set_intrinsic_key":
            self.call = lambda: mb.kp_set_intrinsic_key(o["ktype"], o["size"])
            self.expected_hist = [("kp_set_intrinsic_key", o["ktype"], o["size"])]
            self.expect_ret = ("bool",)
        elif n == "kp_write_nonvolatile":
            self.call = lambda: mb.kp_write_nonvolatile(o["mem_id"])
            self.expected_hist = [("kp_write_nonvolatile", o["mem_id"])]
            self.expect_ret = ("bool",)
        elif n == "kp_read_nonvolatile":
            self.call = lambda: mb.kp_read_nonvolatile(o["mem_id"])
            self.expected_hist = [("kp_read_nonvolatile", o["mem_id"])]
            self.expect_ret = ("bool",)
        elif n == "kp_set_user_key":
            data = gen_bytes(o["dseed"], o["len"])
            self.call = lambda: mb.kp_set_user_key(o["ktype"], data)
            self.expected_hist = [("kp_set_user_key", o["ktype"], data.hex())]
            self.data_out, self.data_tag = data, md.C_KEY_PROV
            self.expect_ret = ("bool",)
            self.frames = 4 + _frames(len(data), mp)
        elif n == "kp_write_key_store":
            data = gen_bytes(o["dseed"], o["len"])
            self.call = lambda: mb.kp_write_key_store(data)
            self.expected_hist = [("kp_write_key_store", len(data))]
            self.data_out, self.data_tag = data, md.C_KEY_PROV
            self.expect_ret = ("bool",)
            self.frames = 4 + _frames(len(data), mp)
        elif n == "kp_read_key_store":
            self.call = mb.kp_read_key_store
            self.expected_hist = [("kp_read_key_store", len(core.key_store))]
            self.expect_ret = ("bytes", core.key_store if core.key_store else None)
            self.frames = 4 + _frames(len(core.key_store), mp)
        elif n == "generate_key_blob":
            dek = gen_bytes(o["dseed"], o["len"])
            self.call = lambda: mb.generate_key_blob(dek, o["key_sel"], o["count"])
            self.expected_hist = [("key_blob_dek", o["key_sel"], dek.hex()), ("key_blob_get", o["key_sel"], o["count"])]
            self.data_out, self.data_tag = dek, md.C_GEN_KEY_BLOB
            self.expect_ret = ("bytes", md.key_blob_of(dek, o["key_sel"], o["count"]))
            self.frames = 8 + _frames(len(dek), mp) + _frames(o["count"], mp)
        elif n == "load_image":
            data = gen_bytes(o["dseed"], o["len"])
            self.call = lambda: mb.load_image(data)
            self.expected_hist = []
            self.data_out, self.data_tag = data, 0
            self.expect_ret = ("bool",)
            self.frames = 2 + _frames(len(data), mp)
            self.skip_status_mirror = True
        elif n == "fuse_program":
            data = gen_bytes(o["dseed"], o["len"])
            self.call = lambda: mb.fuse_program(o["addr"], data)
            self.expected_hist = [("fuse_program", o["addr"], data.hex())]
            self.data_out, self.data_tag = data, md.C_FUSE_PROGRAM
            self.expect_ret = ("bool",)
            self.frames = 4 + _frames(len(data), mp)
        elif n == "fuse_read":
            addr, ln = o["addr"], o["len"]
            self.call = lambda: mb.fuse_read(addr, ln)
            self.expected_hist = [("fuse_read", addr, ln)]
            self.expect_ret = ("bytes", core.fuses.get(addr, b"").ljust(ln, b"\0")[:ln])
            self.frames = 4 + _frames(ln, mp)
        elif n == "update_life_cycle":
            self.call = lambda: mb.update_life_cycle(o["value"])
            self.expected_hist = [("update_life_cycle", o["value"])]
            self.expect_ret = ("bool",)
        elif n == "flash_security_disable":
            key = gen_bytes(o["dseed"], 8)
            self.call = lambda: mb.flash_security_disable(key)
            # the backdoor key travels as two words, most significant byte first within each word
            self.expected_hist = [("flash_security_disable", int.from_bytes(key[0:4], "big"), int.from_bytes(key[4:8], "big"))]
            self.expect_ret = ("bool",)
        elif n == "ele_message":
            a = o["args"]
            self.call = lambda: mb.ele_message(*a)
            self.expected_hist = [("ele_message", (0, *a))]
            self.expect_ret = ("bool",)
        elif n == "tp":
            # trust-provisioning / WPC / DSC-HSM / EL2GO commands: parameters only, answered with status + value words
            meth, a = o["meth"], list(o["args"])
            tag, words, rk = tp_wire(meth, a)
            self.call = lambda: getattr(mb, meth)(*a)
            self.expected_hist = [("tp", tag, tuple(words))]
            vals = md.tp_values(tag, words)
            self.expect_ret = {"list": ("value", vals), "first": ("value", vals[0]), "bool": ("bool",), "zero": ("value", 0)}[rk]
        elif n == "property_list":
            # the decoded listing of the device's properties: a function of what the device answers, whatever was
            # decoded before in this process
            self.call = lambda: [[p.tag, type(p).__name__, str(p)] for p in mb.get_property_list()]
            self.expected_hist = None
            self.expect_ret = ("listing",)
            self.skip_status_mirror = True
            self.frames = 260
        elif n == "decode_property":
            # a property of *another* board (a family whose database entry overrides some property tags) is decoded
            from spsdk.mboot.properties import parse_property_value

            self.call = lambda: str(parse_property_value(o["tag"], [o["value"]], None, o["family"]))
            self.expected_hist = []
            self.expect_ret = ("any",)
            self.skip_status_mirror = True
        elif n == "reset":
            self.call = lambda: mb.reset(timeout=o.get("timeout", 100), reopen=True)
            self.expected_hist = [("reset",)]
            self.expect_ret = ("bool",)
            self.skip_status_mirror = True
            self.frames = 8
        else:
            raise HarnessError(f"unknown op {n}")


# ----------------------------------------------------------------------------------------------
# one history


class Run:
    def __init__(self, plan: dict) -> None:
        self.plan = plan
        self.log = EventLog(keep=600)
        self.records: list = []
        self.faults: dict = {}
        self.extra: dict = {}
        self.probes: dict = {}
        self.obs: dict = {}
        self.trace: list = []

    def violation(self, oracle, site, msg, detail=None) -> None:
        self.records.append({"oracle": oracle, "site": site, "msg": msg, "detail": detail})
        self.log.add("violation", oracle, site)

    def probe(self, name, n=1):
        self.probes[name] = self.probes.get(name, 0) + n

    def fault_plan_for(self, s: Session, k: int, flist: list):
        fp = s.lk.FaultPlan()
        core, eng = s.core, s.engine
        core.err_plan = {}
        core.abort_plan = {}
        if s.transport == "uart":
            eng.ack_plan = {}
            eng.frame_plan = {}
        for f in flist:
            if f.get("op") != k:
                continue
            kind = f["kind"]
            if kind in ("flip", "drop", "trunc", "stall", "insert", "abort", "short", "dup"):
                d = fp.d2h if f.get("dir", "d2h") == "d2h" else fp.h2d
                d.setdefault(f["pos"], []).append(f)
            elif kind == "dev_err":
                core.err_plan[core.cmd_count + f.get("cmd", 0)] = (f["when"], f["status"])
            elif kind == "dev_abort":
                core.abort_plan[core.cmd_count + f.get("cmd", 0)] = f.get("after", 0)
                if s.mb.max_packet_size is None:
                    # the first command of a fresh McuBoot object may be the max-packet-size query: aim at the next one too
                    core.abort_plan[core.cmd_count + f.get("cmd", 0) + 1] = f.get("after", 0)
            elif kind in ("nak", "ack_abort") and s.transport == "uart":
                eng.ack_plan[eng.acks_sent + f.get("ack", 0)] = "nak" if kind == "nak" else "abort"
            elif kind == "frame_abort" and s.transport == "uart":
                eng.frame_plan[eng.frames_sent + f.get("frame", 0)] = "abort"
        return fp

    def execute(self) -> dict:
        plan = self.plan
        CLOCK.reset()
        s = Session(plan, self.log)
        try:
            s.open()
        except Exception as exc:  # pylint: disable=broad-except
            raise HarnessError(f"fault-free open failed: {type(exc).__name__}: {exc}") from exc
        flist = plan.get("faults", [])
        for k, op in enumerate(plan["ops"]):
            self.one_op(s, k, op, flist)
            if len(self.records) > 20:
                break
        try:
            s.close()
        except Exception:  # pylint: disable=broad-except
            pass
        for kname, v in s.core.fired.items():
            self.faults[kname] = self.faults.get(kname, 0) + v
        return self.result()

    def one_op(self, s: Session, k: int, op: dict, flist: list) -> None:  # noqa: C901 pylint: disable=too-many-branches,too-many-statements,too-many-locals
        core, link = s.core, s.link
        spec = OpSpec(s, op)
        fp = self.fault_plan_for(s, k, flist)
        link.new_op(fp)
        link.max_io_calls = 60 * spec.frames + 4000 + 8 * op.get("len", 0)
        if core.data_in and not core.data_in[-1][2]:
            core.data_in[-1][2] = True  # a command-less data stream (load-image) ends with the API call
        h0, d0, st0 = len(core.history), len(core.data_in), len(core.status_sent)
        mps_unknown = s.mb.max_packet_size is None
        fired0 = dict(core.fired)
        t0 = CLOCK.now_us
        sl0 = CLOCK.slept_us
        outcome = None
        try:
            ret = spec.call()
            outcome = ("ret", ret)
        except s.lk.Unbounded as exc:
            outcome = ("unbounded", str(exc))
        except M.SPSDKError as exc:
            outcome = ("spsdk_exc", type(exc).__name__)
        except Exception as exc:  # pylint: disable=broad-except
            import traceback

            tb = traceback.extract_tb(exc.__traceback__)
            fn = "?"
            for fr in tb:
                if "/spsdk/" in fr.filename:
                    fn = f"{fr.filename.rsplit('/', 1)[-1]}:{fr.name}"
            outcome = ("other_exc", f"{type(exc).__name__}@{fn}", traceback.format_exc()[-1500:])
        dt = CLOCK.now_us - t0
        slept = CLOCK.slept_us - sl0
        dev_fired = {kk: v - fired0.get(kk, 0) for kk, v in core.fired.items() if v - fired0.get(kk, 0)}
        for kk, v in fp.fired.items():
            self.faults[kk] = self.faults.get(kk, 0) + v
        for kk, v in fp.extra_fired.items():
            self.extra[kk] = self.extra.get(kk, 0) + v
        for kk, v in fp.where.items():
            self.probe("hit:" + kk, v)
        listed_fault = bool(fp.fired) or bool(dev_fired)
        extra_fault = bool(fp.extra_fired)
        hist = core.history[h0:]
        datas = core.data_in[d0:]
        statuses = core.status_sent[st0:]
        # statuses of the call's own commands (the host's packet-size query may be refused: it legally falls back)
        own_statuses = [st for st, cx in zip(statuses, core.status_ctx[st0:]) if not (cx == (s.md.C_GET_PROPERTY, 11) and not (spec.name == "get_property" and op.get("tag") == 11))]
        if not (spec.name == "get_property" and op.get("tag") == 11):
            # the host may query the max packet size whenever it likes (once per object today; a refactoring that
            # asks again is protocol-legal): such queries are not part of the call's effect
            hist = [h for h in hist if not (h[:3] == ("get_property", 11, 0) or (h[0] == "refused" and h[1] == 7 and h[2][:1] == (11,)))]
        status_code = s.mb.status_code
        self.log.add("op", k, spec.name, outcome[0], str(outcome[1])[:60] if outcome[0] != "ret" else _ret_sig(outcome[1]), status_code, dt, len(hist), sorted(fp.fired), sorted(dev_fired))
        if len(self.trace) < 60:
            self.trace.append([k, spec.name, outcome[0], _ret_sig(outcome[1]) if outcome[0] == "ret" else str(outcome[1])[:80], status_code, dt, sorted(fp.fired) + sorted(dev_fired) + sorted(fp.extra_fired)])
        where = f"op {k} {spec.name}({_args(op)}) over {s.transport}"

        # ---- oracles that hold in every configuration
        if outcome[0] == "other_exc" and not extra_fault:
            if getattr(s, "tainted", False) and s.transport == "hid":
                # answers of the wrong command (see check_success) may also make a decoder trip: same recorded class
                self.violation("later-call-on-hid", "stale-report-answers-later-call", f"{where}: raised {outcome[1]} on a USB-HID session that met a fault earlier", detail=outcome[2])
            else:
                self.violation("undocumented-exception", outcome[1], f"{where}: raised {outcome[1]} instead of a documented SPSDK error", detail=outcome[2])
        if outcome[0] == "unbounded" and not extra_fault:
            self.violation("unbounded", spec.name, f"{where}: {outcome[1]}")
        nfr = spec.n_frames()
        if outcome[0] == "ret" and isinstance(outcome[1], (bytes, bytearray)):
            # a read whose length the device decides (key store): the frames actually needed for what came back
            nfr = max(nfr, 12 + _frames(len(outcome[1]), min(spec.host_mp(), core.max_packet)) * 3)
        budget = nfr * 2 * s.timeout_us + nfr * int(plan_knob(s, "slow_us")) + slept + 1_000_000
        if dt > budget and not extra_fault:
            self.violation("unbounded-time", spec.name, f"{where}: took {dt} us of simulated time, budget {budget}")
        if listed_fault or extra_fault:
            self.any_fault_so_far = True
        if core.max_payload_seen > core.max_packet:
            # after a fault on the packet-size query the host legally falls back to the protocol's default and minimum of
            # 32 bytes; a device announcing less than 32 (outside the protocol, generated for the fault-free half of the
            # quantifier) then sees larger packets: not judged
            fell_back = core.max_packet < 32 and s.mb.max_packet_size == 32 and getattr(self, "any_fault_so_far", False)
            if not fell_back and getattr(s, "tainted", False) and s.transport == "hid":
                # a later call on a USB-HID session that met a fault earlier: a report left over from the failed exchange
                # answered the host's packet-size query (recorded finding, one class for every consequence)
                self.violation("later-call-on-hid", "stale-report-answers-later-call", f"{where}: a data packet of {core.max_payload_seen} bytes exceeds the device's {core.max_packet}; the host uses {s.mb.max_packet_size} on a USB-HID session that met a fault earlier")
            elif not fell_back:
                self.violation("packet-too-large", spec.name, f"{where}: a data packet of {core.max_payload_seen} bytes exceeds the negotiated {core.max_packet}")
            else:
                self.probe("fallback_to_default_packet_size_on_small_device")
            core.max_payload_seen = 0

        success = outcome[0] == "ret" and status_code == 0 and outcome[1] is not None and outcome[1] is not False
        if spec.name == "load_image":
            success = outcome[0] == "ret" and outcome[1] is True

        # an earlier call of this session met a link fault and the session went on without a reopen: host and device may
        # be out of step, so a later call may fail - but it must never report success with wrong data either
        tainted = bool(getattr(s, "tainted", False))
        if tainted:
            self.probe("op_on_a_session_that_met_a_fault_earlier")
        # (load_image has no command and no response: on a session that is out of step its data packets may be taken by
        # the device for the data phase it is still in, and no host can tell - judged on untainted sessions only)
        if success and not extra_fault and not (spec.name == "reset" and (listed_fault or tainted)) and not (spec.name == "load_image" and tainted):
            # reset documents "no response" as success (the device resets before answering), so under a
            # fault its True says nothing about the device; it is judged in the fault-free configuration only
            self.check_success(s, spec, outcome[1], hist, datas, where, exact=not (listed_fault or tainted))
            if not tainted and spec.expect_ret[0] not in ("listing", "any") and not spec.skip_status_mirror and any(st != 0 for st in own_statuses):
                # whatever else happened, the device answered one of this call's commands with an error status (the
                # response was built and sent): a call that reports success has lost it
                self.violation("wrong-success", spec.name + ":device-error-status-lost", f"{where}: reported success (status_code 0) although the device answered with the status words {own_statuses}")
        if not listed_fault and not extra_fault and not tainted:
            self.check_exact(s, spec, outcome, hist, datas, statuses, status_code, where)

        if listed_fault or extra_fault or outcome[0] != "ret":
            self.probe("op_with_fault" if (listed_fault or extra_fault) else "op_failed_clean")
            if outcome[0] == "ret" and not success:
                self.probe("fault_surfaced_as_failure_return")
            elif outcome[0] == "spsdk_exc":
                self.probe("fault_surfaced_as_" + outcome[1])
            elif success:
                self.probe("fault_masked_op_succeeded")
        # a device error status on an otherwise healthy link ends the command cleanly on both sides: the session goes
        # on without a reopen, and the calls that follow are judged like any other call on a fault-free link
        clean_refusal = (
            bool(dev_fired)
            and set(dev_fired) <= {"dev_error_initial", "dev_error_final"}
            and not fp.fired
            and not extra_fault
            and (outcome[0] == "ret" or (outcome[0] == "spsdk_exc" and outcome[1] == "McuBootCommandError"))
            and status_code != 10004
        )
        if clean_refusal:
            self.probe("session_continues_after_device_error_status")
        elif listed_fault or extra_fault or outcome[0] in ("spsdk_exc", "other_exc", "unbounded") or status_code == 10004:
            if self.plan.get("continue_after_fault") and (s.transport == "uart" or not extra_fault) and outcome[0] in ("ret", "spsdk_exc") and s.mb.is_opened:
                # the caller simply goes on with the same port. Whatever was still on the wire arrives in the idle time
                # before the next call (a late answer included: SerialDevice purges its input before every frame)
                CLOCK.advance(30_000_000)
                s.tainted = True
                self.probe("session_continues_after_link_fault")
                return
            s.tainted = False
            # the history closes: drain the link, reopen
            try:
                s.close()
            except Exception:  # pylint: disable=broad-except
                pass
            link.new_op(s.lk.FaultPlan())
            link.drain()
            try:
                s.open()
            except Exception as exc:  # pylint: disable=broad-except
                raise HarnessError(f"reopen after drain failed: {type(exc).__name__}: {exc}") from exc

    def check_success(self, s, spec, ret, hist, datas, where, exact) -> None:
        """The call reported success: its postconditions must hold, fault or no fault."""
        oracle = "wrong-success"
        kind = spec.expect_ret[0]
        if kind in ("listing", "any"):
            return
        if getattr(s, "tainted", False) and s.transport == "hid":
            # a later call on a USB-HID session that met a fault earlier: reports left over from the failed exchange answer
            # it (the serial path purges its input before every frame, the HID path has no such step). Recorded finding:
            # one class for every operation, so that wrong successes anywhere else keep their own classes.
            before = len(self.records)
            self._check_success(s, spec, ret, hist, datas, where, exact, "later-call-on-hid")
            for r_ in self.records[before:]:
                r_["site"] = "stale-report-answers-later-call"
            return
        self._check_success(s, spec, ret, hist, datas, where, exact, oracle)

    def _check_success(self, s, spec, ret, hist, datas, where, exact, oracle) -> None:
        kind = spec.expect_ret[0]
        if kind == "bytes":
            exp = spec.expect_ret[1]
            if exp is None or bytes(ret) != exp:
                self.violation(oracle, spec.name + ":data", f"{where}: reported success but returned {len(ret)} bytes, expected {None if exp is None else len(exp)}" + ("" if exp is None or len(ret) != len(exp) else " (content differs)"))
        elif kind == "value":
            if ret != spec.expect_ret[1]:
                self.violation(oracle, spec.name + ":value", f"{where}: reported success with value {ret!r}, the device holds {spec.expect_ret[1]!r}")
        if spec.data_out is not None:
            got = [bytes(d[1]) for d in datas if d[0] == spec.data_tag]
            if got != [spec.data_out]:
                lens = [len(g) for g in got]
                self.violation(oracle, spec.name + ":data-phase", f"{where}: reported success but the device accepted data phases of lengths {lens} (expected exactly one of {len(spec.data_out)} bytes, same content)")
        exp_hist = spec.hist()
        if exp_hist is not None:
            okh = [h for h in hist if h[-1] == 0 and h[0] not in ("aborted",)]
            if [h[:-1] for h in okh] != [tuple(e) for e in exp_hist] or len(okh) != len(hist):
                self.violation(oracle, spec.name + ":effect", f"{where}: reported success but the device executed {_short(hist)}, expected {_short(exp_hist)} all with status 0")

    def check_exact(self, s, spec, outcome, hist, datas, statuses, status_code, where) -> None:
        """No fault in this operation: everything must be exactly what the protocol defines."""
        oracle = "fault-free"
        if spec.expect_ret[0] == "any" and outcome[0] == "ret":
            return
        if spec.expect_ret[0] == "listing" and outcome[0] == "ret":
            listing = [e for e in outcome[1] if e[0] not in (10, 22)]  # (the two writable properties may have been set)
            first = getattr(s, "first_listing", None)
            if first is None:
                s.first_listing = listing
                want = dict(s.core.props)
                for t_, _ty, _txt in listing:
                    if t_ not in want:
                        self.violation(oracle, "property_list:unknown-tag", f"{where}: the listing contains property {t_} which the device does not have")
                missing = [t_ for t_ in want if t_ < 0x23 and t_ not in [e[0] for e in outcome[1]]]
                if missing:
                    self.violation(oracle, "property_list:missing", f"{where}: the listing lacks the properties {missing} which the device answered")
            elif listing != first:
                diff = [(a, b) for a, b in zip(listing, first) if a != b][:2]
                self.violation(oracle, "property_list:depends-on-history", f"{where}: the same device answers are listed differently than before in this session: {diff or (len(listing), len(first))}")
            self.probe("property_listing_compared")
            return
        if outcome[0] != "ret":
            if outcome[0] == "spsdk_exc" and s.mb._cmd_exception and any(st != 0 for st in statuses):
                pass  # cmd_exception=True: a device error status is raised, as documented
            elif outcome[0] == "spsdk_exc":
                self.violation(oracle, spec.name + ":raised", f"{where}: raised {outcome[1]} on a fault-free link")
            return
        ret = outcome[1]
        all_ok = bool(statuses) and all(st == 0 for st in statuses)
        if spec.name == "load_image":
            all_ok = True
        exp_hist = spec.hist()
        if exp_hist is not None and all_ok:
            if [h[:-1] for h in hist] != [tuple(e) for e in exp_hist]:
                self.violation(oracle, spec.name + ":effect", f"{where}: device executed {_short(hist)}, expected {_short(exp_hist)}")
        elif exp_hist and hist and hist[0][0] == exp_hist[0][0] and tuple(hist[0][:-1]) != tuple(exp_hist[0]):
            # the device answered with an error status: it must still have been asked what the caller asked for
            self.violation(oracle, spec.name + ":effect", f"{where}: device was asked {_short(hist[:1])}, the call was {_short(exp_hist[:1])}")
        if not spec.skip_status_mirror and statuses and status_code != statuses[-1]:
            self.violation(oracle, spec.name + ":status", f"{where}: status_code {status_code} but the device's last status word was {statuses[-1]}")
        kind = spec.expect_ret[0]
        if kind == "bool":
            if bool(ret) != all_ok:
                self.violation(oracle, spec.name + ":return", f"{where}: returned {ret!r} but device statuses were {statuses}")
        elif all_ok:
            if ret is None or ret is False:
                self.violation(oracle, spec.name + ":return", f"{where}: returned {ret!r} although the device reported success")
        else:
            if ret not in (None, b"", False) and status_code == 0:
                self.violation(oracle, spec.name + ":return", f"{where}: returned data with status 0 although device statuses were {statuses}")
        if spec.data_out is not None and all_ok:
            got = [bytes(d[1]) for d in datas if d[0] == spec.data_tag]
            if got != [spec.data_out]:
                self.violation(oracle, spec.name + ":data-phase", f"{where}: device accepted data phases of lengths {[len(g) for g in got]}, expected one of {len(spec.data_out)} bytes")

    def result(self) -> dict:
        plan = self.plan
        shape = [[o["op"], _bucket(o.get("len", 0), plan["max_packet"])] for o in plan["ops"]]
        fsig = sorted((f["kind"], f.get("dir"), f.get("op"), f.get("pos"), f.get("when")) for f in plan.get("faults", []))
        ksig = [plan["transport"], plan["max_packet"], sorted(plan["knobs"].items())]
        fired = sum(self.faults.values()) + sum(self.extra.values())
        return {
            "records": _dedup(self.records),
            "digest": self.log.digest(),
            "sig": [digest(ksig)[:16], digest(fsig)[:16], digest(shape)[:16]],
            "nontrivial": len(plan["ops"]) >= 2 or fired > 0,
            "faults": self.faults,
            "probes": self.probes,
            "obs": {**{"extra_" + k: v for k, v in self.extra.items()}, "api_calls": len(plan["ops"])},
            "sim_time_us": CLOCK.now_us,
            "steps": self.log.n,
            "trace": self.trace,
        }


def plan_knob(s, name):
    return s.core.knobs.get(name, 0)


def _short(h) -> str:
    r = repr(h)
    return r if len(r) < 400 else r[:200] + " ... " + r[-150:]


def _bucket(n: int, mp: int) -> str:
    if n == 0:
        return "0"
    if n % mp == 0:
        return f"k*{n // mp}"
    return f"{n // mp}+{'1' if n % mp == 1 else ('m-1' if n % mp == mp - 1 else 'r')}"


def _ret_sig(ret):
    if isinstance(ret, (bytes, bytearray)):
        return ["bytes", len(ret), hashlib.sha256(bytes(ret)).hexdigest()[:8]]
    if isinstance(ret, list):
        return ["list", ret[:6]]
    return repr(ret)[:40]


def _args(op: dict) -> str:
    return ", ".join(f"{k}={v:#x}" if isinstance(v, int) and k in ("addr", "pattern") else f"{k}={v}" for k, v in op.items() if k != "op")


def _dedup(records):
    seen, out = set(), []
    for r in records:
        k = (r["oracle"], r["site"])
        if k not in seen:
            seen.add(k)
            out.append(r)
    return out


def execute(plan: dict) -> dict:
    worker_init()
    if plan.get("proto"):
        from c10 import sdpsim

        return sdpsim.Run(plan).execute()
    if plan.get("sweep"):
        return execute_sweep(plan)
    return Run(plan).execute()


def execute_sweep(plan: dict) -> dict:
    """Position sweep: measure the fault-free device->host stream of the swept operation, then one
    run per (position, kind) with that single fault."""
    sw = plan["sweep"]
    base = {k: v for k, v in plan.items() if k != "sweep"}
    base["faults"] = []
    # measurement run
    CLOCK.reset()
    r0 = Run(base)
    res0 = r0.execute()
    agg = res0
    lengths = _measure(base, sw["op"])
    n = lengths
    positions = list(range(sw.get("from", 0), min(n, sw.get("to", 1 << 30)), sw.get("stride", 1)))
    runs = 0
    for pos in positions:
        for kind in sw["kinds"]:
            p = copy.deepcopy(base)
            f = {"op": sw["op"], "dir": "d2h", "pos": pos, "kind": kind}
            if kind == "flip":
                f["bit"] = (pos * 7 + 3) % 8
            p["faults"] = [f]
            r = Run(p).execute()
            runs += 1
            for rec in r["records"]:
                rec = dict(rec)
                rec["msg"] = f"[sweep pos={pos} kind={kind}] " + rec["msg"]
                agg["records"].append(rec)
            for k2, v in r["faults"].items():
                agg["faults"][k2] = agg["faults"].get(k2, 0) + v
            for k2, v in r["probes"].items():
                agg["probes"][k2] = agg["probes"].get(k2, 0) + v
            agg["sim_time_us"] += r["sim_time_us"]
            agg["steps"] += r["steps"]
            agg["digest"] = hashlib.sha256((agg["digest"] + r["digest"]).encode()).hexdigest()
            if len(agg["records"]) > 30:
                break
    agg["records"] = _dedup(agg["records"])
    agg["obs"]["sweep_runs"] = runs
    agg["obs"]["sweep_stream_len"] = n
    agg["nontrivial"] = True
    agg["sig"][1] = digest(["sweep", sw])[:16]
    return agg


def _measure(base: dict, opk: int) -> int:
    CLOCK.reset()
    log = EventLog(keep=0)
    s = Session(base, log)
    s.open()
    n = 0
    for k, op in enumerate(base["ops"]):
        spec = OpSpec(s, op)
        fp = s.lk.FaultPlan()
        s.link.new_op(fp)
        try:
            spec.call()
        except Exception:  # pylint: disable=broad-except
            pass
        if k == opk:
            n = fp.d2h_pos
            break
    try:
        s.close()
    except Exception:  # pylint: disable=broad-except
        pass
    return n


# ----------------------------------------------------------------------------------------------
# plan generation

RAM, FLASH = 0x2000_0000, 0x0
STATUSES = [1, 4, 101, 10200, 10203, 10101, 10002, 10301]


def _len(rng: random.Random, mp: int, cap: int) -> int:
    r = rng.random()
    if r < 0.55:
        base = rng.choice([1, 2, 3, 4, 5])
        v = rng.choice([1, mp - 1, mp, mp + 1, base * mp, base * mp - 1, base * mp + 1, 2 * mp, 4, 8, 16])
    elif r < 0.9:
        v = rng.randint(1, min(cap, 8 * mp))
    else:
        v = rng.randint(1, cap)
    return max(1, min(v, cap))


def _otp_index(rng: random.Random) -> int:
    """OTP word index; the bits above 23 are flags of the command (bit 24: lock the word), they travel with the index."""
    i = rng.randrange(0, 64)
    return i | rng.choice([0, 0, 0, 1 << 24, 1 << 24, 1 << 31, 0x7F00_0000])


def gen_op(rng: random.Random, mp: int, transport: str, cap: int) -> dict:
    name = rng.choice(
        ["write_memory"] * 6 + ["read_memory"] * 6 + ["fill_memory"] * 2 + ["flash_erase_region"] * 2 + ["get_property"] * 3 + ["set_property"] * 2
        + ["receive_sb_file"] * 3 + ["flash_program_once", "flash_read_once", "efuse_program_once", "efuse_read_once", "flash_read_resource"]
        + ["kp_enroll", "kp_set_intrinsic_key", "kp_write_nonvolatile", "kp_read_nonvolatile", "kp_set_user_key", "kp_write_key_store", "kp_read_key_store"]
        + ["generate_key_blob", "load_image", "load_image", "fuse_program", "fuse_read", "update_life_cycle", "execute", "call", "configure_memory", "reliable_update"]
        + ["flash_erase_all", "flash_erase_all_unsecure", "reset"]
        + ["property_list", "decode_property"]
        + ["tp", "tp", "tp", "ele_message", "flash_security_disable"]
    )
    base = rng.choice([RAM, RAM, FLASH, 0x6000_0000])
    off = rng.choice([0, 0, 4, 0x100, 0x1000, rng.randrange(0, 0x8000), 0xFFFF0])
    bad = rng.random() < 0.08
    addr = (0x9000_0000 + off) if bad else base + off
    o: dict = {"op": name}
    if name in ("read_memory", "write_memory", "flash_erase_region", "flash_erase_all") and rng.random() < 0.3:
        o["mem_id"] = rng.choice([1, 8, 9, 0x100, 0x101, 0x110, 0x120])
    if name in ("write_memory", "receive_sb_file", "load_image", "kp_write_key_store", "fuse_program"):
        o.update(len=_len(rng, mp, cap), dseed=rng.randrange(1 << 30))
        if name in ("write_memory", "fuse_program"):
            o["addr"] = addr
        if name == "receive_sb_file" and transport == "hid":
            o["check_errors"] = rng.random() < 0.5
        if name == "kp_write_key_store":
            o["len"] = min(o["len"], 2048)
    elif name == "read_memory":
        o.update(addr=addr, len=rng.choice([0, 0]) if rng.random() < 0.04 else _len(rng, mp, cap))
        if transport == "hid" and rng.random() < 0.3:
            o["fast"] = True
    elif name == "fuse_read":
        o.update(addr=addr, len=rng.choice([4, 8, 32, mp, mp + 4]))
    elif name == "fill_memory":
        ln = rng.choice([4, 8, 64, 256, 4 * rng.randint(1, 200)])
        o.update(addr=(addr & ~3) if rng.random() < 0.9 else addr | 1, len=ln if rng.random() < 0.9 else ln + 1, pattern=rng.choice([0, U32, 0xA5A5A5A5, rng.randrange(1 << 32)]))
    elif name == "flash_erase_region":
        o.update(addr=addr, len=rng.choice([0x100, 0x1000, rng.randint(1, 0x2000)]))
    elif name == "decode_property":
        o.update(tag=rng.choice([0x0A, 0x14, 0x15, 0x16]), value=rng.choice([0, 1, 2]), family=rng.choice(["kw45b41z8", "k32w148"]))
    elif name == "get_property":
        o.update(tag=rng.choice([1, 2, 3, 4, 5, 7, 10, 11, 12, 14, 15, 17, 18, 22, 6, 25, 0x40, 0xC8, 0x23, 0xFE]), index=rng.choice([0, 0, 1]))
    elif name == "set_property":
        o.update(tag=rng.choice([10, 22, 22, 1, 30, 0x40, 0x40, 0xC8, 0x77]), value=rng.choice([0, 1, rng.randrange(1 << 32)]))
    elif name in ("execute",):
        o.update(addr=addr & ~3, arg=rng.randrange(1 << 32), sp=rng.choice([0, RAM + 0x8000]))
    elif name == "call":
        o.update(addr=addr & ~3, arg=rng.randrange(1 << 32))
    elif name == "configure_memory":
        o.update(addr=RAM + rng.randrange(0, 0x1000, 4), mem_id=rng.choice([0, 1, 9, 0x100, 0x101]))
    elif name == "reliable_update":
        o.update(addr=addr)
    elif name == "flash_program_once":
        o.update(index=_otp_index(rng), len=rng.choice([4, 8]), dseed=rng.randrange(1 << 30))
    elif name == "flash_read_once":
        o.update(index=rng.randrange(0, 64), len=rng.choice([4, 8]))
    elif name == "efuse_program_once":
        o.update(index=_otp_index(rng), value=rng.randrange(1 << 32), verify=rng.random() < 0.5)
    elif name == "efuse_read_once":
        o.update(index=rng.randrange(0, 64))
    elif name == "flash_read_resource":
        o.update(addr=rng.randrange(0, 0x1000, 4), len=rng.choice([4, 8, 64, 256, 512]), option=rng.choice([0, 1]))
    elif name == "kp_set_intrinsic_key":
        o.update(ktype=rng.choice([2, 3, 7, 11]), size=rng.choice([16, 32]))
    elif name in ("kp_write_nonvolatile", "kp_read_nonvolatile"):
        o.update(mem_id=rng.choice([0, 9]))
    elif name == "kp_set_user_key":
        o.update(ktype=rng.choice([2, 3, 7, 11, 12]), len=rng.choice([16, 32, 64, mp, mp + 1]), dseed=rng.randrange(1 << 30))
    elif name == "generate_key_blob":
        o.update(len=rng.choice([16, 24, 32]), dseed=rng.randrange(1 << 30), key_sel=rng.choice([0, 2, 3]), count=rng.choice([72, 88, 48, mp, mp + 8]))
    elif name == "update_life_cycle":
        o.update(value=rng.randrange(256))
    elif name == "flash_security_disable":
        o.update(dseed=rng.randrange(1 << 30))
    elif name == "ele_message":
        o.update(args=[RAM + rng.randrange(0, 0x1000, 4), rng.choice([1, 2, 6, 0xFFFF]), rng.choice([0, RAM + 0x2000]), rng.choice([0, 1, 4])])
    elif name == "tp":
        meth = rng.choice(sorted(TP_METHODS))
        nargs = TP_METHODS[meth][2]

        def word(i):
            return rng.choice([0, 1, U32, 0x8000_0000, RAM + rng.randrange(0, 0x8000, 4), rng.choice([16, 32, 48, 64, 96, 0x100]), rng.randrange(1 << 32)]) if i % 2 == 0 else rng.choice([0, 16, 32, 48, 64, 0x100, 0xFFFF, rng.randrange(1 << 16)])

        args = [word(i) for i in range(nargs)]
        if meth == "tp_prove_genuinity":
            args = [rng.choice([0, RAM + 0x100, 0x1_2000_0000, (1 << 48) - 4, rng.randrange(1 << 40)]), rng.choice([0, 0x100, 0xFFFF, rng.randrange(1 << 16)])]
        elif meth == "tp_set_wrapped_data":
            args = [rng.choice([0, 0, RAM + 0x100, 0x1_2000_0000, rng.randrange(1 << 40)]), rng.choice([0x4B, 0x4B, 0, 0xFF, rng.randrange(256)]), rng.choice([1, 1, 2, 3, 0])]
        elif meth == "el2go_close_device":
            args = [rng.choice([0, RAM, U32, rng.randrange(1 << 32)]), rng.choice([0, 1])]
        o.update(meth=meth, args=args)
    elif name == "reset":
        o.update(timeout=rng.choice([10, 100, 2000]))
    return o


def gen_fault(rng: random.Random, nops: int, transport: str, ops: list, mp: int, extra_ok: bool) -> dict:
    k = rng.randrange(nops)
    ln = ops[k].get("len", 0)
    r = rng.random()
    if r < 0.6:
        pos = rng.randrange(24)
    elif r < 0.85:
        pos = rng.randrange(200)
    else:
        pos = rng.randrange(max(1, ln + 40))
    if transport == "uart":
        kind = rng.choice(["flip"] * 5 + ["drop"] * 3 + ["trunc"] * 3 + ["stall"] * 2 + ["nak"] * 2 + ["ack_abort", "frame_abort"] + ["dev_err"] * 3 + ["dev_abort"] * 2 + ["h2d_flip", "h2d_drop"] + (["insert"] if extra_ok else []))
        if kind in ("flip", "drop", "trunc", "stall", "insert"):
            f = {"op": k, "dir": "d2h", "pos": pos, "kind": kind}
            if kind == "flip":
                f["bit"] = rng.randrange(8)
            if kind == "stall":
                f["us"] = rng.choice([6_000_000, 20_000_000])
            if kind == "insert":
                f["byte"] = rng.choice([0x5A, 0x00, 0xA1, 0xFF])
            return f
        if kind in ("h2d_flip", "h2d_drop"):
            return {"op": k, "dir": "h2d", "pos": rng.randrange(max(8, min(ln + 16, 300))), "kind": kind[4:], "bit": rng.randrange(8)}
        if kind in ("nak", "ack_abort"):
            return {"op": k, "kind": kind, "ack": rng.randrange(0, 3 + min(ln // mp, 6))}
        if kind == "frame_abort":
            return {"op": k, "kind": kind, "frame": rng.randrange(0, 3)}
    else:
        kind = rng.choice(["drop"] * 4 + ["abort"] * 3 + ["short"] * 3 + ["trunc"] * 2 + ["stall"] + ["dev_err"] * 3 + ["dev_abort"] * 2 + (["dup", "h2d_drop"] if extra_ok else []))
        if kind in ("drop", "abort", "short", "trunc", "stall", "dup"):
            f = {"op": k, "dir": "d2h", "pos": rng.randrange(0, 3 + min(ln // mp, 8)), "kind": kind}
            if kind == "short":
                f["len"] = rng.choice([0, 1, 2, 3, 4, 5, 7, 8, 11])
            if kind == "stall":
                f["us"] = rng.choice([3_000_000, 20_000_000])
            return f
        if kind == "h2d_drop":
            return {"op": k, "dir": "h2d", "pos": rng.randrange(0, 3 + min(ln // mp, 8)), "kind": "drop"}
    if kind == "dev_err":
        return {"op": k, "kind": "dev_err", "cmd": rng.choice([0, 0, 0, 1, 2]), "when": rng.choice(["initial", "final", "final"]), "status": rng.choice(STATUSES)}
    return {"op": k, "kind": "dev_abort", "cmd": 0, "after": rng.randrange(0, 1 + min(ln // mp, 5))}


def gen_plan(family: str, i: int, rng: random.Random, tier: str) -> dict:
    if family.startswith("sdp"):
        from c10 import sdpsim

        return sdpsim.gen_plan(family, i, rng, tier)
    transport = rng.choice(["uart", "hid"])
    mp = rng.choice([32, 32, 56, 64, 128, 256, 512, 1016, 16, 24]) if transport == "hid" else rng.choice([32, 32, 64, 128, 256, 512, 1024, 8, 16, 24])
    timeout_ms = rng.choice([100, 500, 2000, 5000])
    knobs = {
        "timeout_ms": timeout_ms,
        "byte_us": rng.choice([87, 87, 10, 174]),
        "latency_us": rng.choice([50, 200, 2000, 20000]),
        "not_ready": rng.choice([0, 0, 0, 1, 3]) if transport == "uart" else 0,
        "slow_us": rng.choice([0, 0, 0, int(timeout_ms * 1000 * 0.7)]),
        "cmd_exception": rng.random() < 0.25,
        "tp_refuse_generic": rng.random() < 0.4,
    }
    if knobs["slow_us"] and knobs["byte_us"] * 1100 > timeout_ms * 300:
        knobs["slow_us"] = 0
    cap = 65536 if (tier == "thorough" and rng.random() < 0.15) else (8192 if rng.random() < 0.2 else 4 * mp + 40)
    if knobs["byte_us"] * (mp + 8) > timeout_ms * 500:
        knobs["byte_us"] = 10
    nops = rng.randint(1, 12) if family != "sweep" else rng.randint(1, 3)
    ops = [gen_op(rng, mp, transport, cap) for _ in range(nops)]
    plan = {"transport": transport, "max_packet": mp, "knobs": knobs, "ops": ops, "faults": []}
    if family == "control":
        return plan
    if family == "refused":
        # the device answers one call with an error status (a healthy link otherwise); the session goes on
        first = gen_op(rng, mp, transport, cap)
        if rng.random() < 0.3:
            first = {"op": "reset"}
        plan["ops"] = [first] + [gen_op(rng, mp, transport, cap) for _ in range(rng.randint(1, 3))]
        plan["knobs"]["cmd_exception"] = rng.random() < 0.15
        plan["faults"] = [{"op": 0, "kind": "dev_err", "cmd": 0, "when": rng.choice(["initial", "initial", "final"]), "status": rng.choice(STATUSES)}]
        return plan
    if family == "tprov":
        # trust-provisioning / WPC / DSC-HSM / EL2GO / ELE calls, one of them refused by the device (in its own response
        # format or in the generic one) or cut short on the link
        plan["ops"] = []
        for _ in range(rng.randint(1, 5)):
            o = gen_op(rng, mp, transport, cap)
            while o["op"] not in ("tp", "ele_message", "flash_security_disable"):
                o = gen_op(rng, mp, transport, cap)
            plan["ops"].append(o)
        r = rng.random()
        k = rng.randrange(len(plan["ops"]))
        if r < 0.5:
            plan["faults"] = [{"op": k, "kind": "dev_err", "cmd": 0, "when": rng.choice(["initial", "final"]), "status": rng.choice(STATUSES)}]
            if rng.random() < 0.5:
                plan["ops"] = plan["ops"][k:]  # a fresh object: the refused call is the first one
                plan["faults"][0]["op"] = 0
        elif r < 0.8:
            plan["faults"] = [gen_fault(rng, len(plan["ops"]), transport, plan["ops"], mp, extra_ok=False)]
        return plan
    if family == "lastpkt":
        # the device refuses exactly the last data packet of a data phase (abort, NAK or abort frame for its ACK): the
        # call must not count that packet as delivered
        name = rng.choice(["load_image", "load_image", "write_memory", "receive_sb_file", "kp_set_user_key", "kp_write_key_store", "fuse_program"])
        npk = rng.choice([1, 2, 2, 3, 4])
        ln = (npk - 1) * mp + rng.choice([1, mp // 2, mp - 1, mp])
        o = gen_op(rng, mp, transport, cap)
        while o["op"] != name:
            o = gen_op(rng, mp, transport, cap)
        o["len"] = ln
        o.setdefault("dseed", rng.randrange(1 << 30))
        lead = [gen_op(rng, mp, transport, cap) for _ in range(rng.choice([0, 0, 1]))]
        plan["ops"] = lead + [o]
        k = len(lead)
        kind = rng.choice(["dev_abort", "dev_abort", "nak", "ack_abort"]) if transport == "uart" else "dev_abort"
        if kind == "dev_abort":
            plan["faults"] = [{"op": k, "kind": "dev_abort", "cmd": 0, "after": npk - 1}]
        else:
            plan["faults"] = [{"op": k, "kind": kind, "ack": npk - 1 + rng.randrange(0, 4)}]
        return plan
    if family == "props":
        # property decoding: listings interleaved with decodes for other boards' families, reads and writes
        plan["ops"] = []
        for _ in range(rng.randint(2, 8)):
            kind = rng.choice(["property_list"] * 3 + ["decode_property"] * 3 + ["get_property"] * 2 + ["set_property"])
            o = {"op": kind}
            if kind == "decode_property":
                o.update(tag=rng.choice([0x0A, 0x14, 0x15, 0x16]), value=rng.choice([0, 1, 2]), family=rng.choice(["kw45b41z8", "k32w148"]))
            elif kind == "get_property":
                o.update(tag=rng.choice([1, 2, 7, 10, 11, 12, 0x14, 0x15, 0x16, 18, 0x40, 0xC8]), index=0)
            elif kind == "set_property":
                o.update(tag=rng.choice([10, 22, 0x40]), value=rng.choice([0, 1, 7]))
            plan["ops"].append(o)
        return plan
    if family in ("faulty", "extra"):
        plan["continue_after_fault"] = rng.random() < 0.35
    if family == "faulty":
        nf = rng.choice([1, 1, 1, 2, 2, 3, 4])
        plan["faults"] = [gen_fault(rng, nops, transport, ops, mp, extra_ok=False) for _ in range(nf)]
        return plan
    if family == "extra":
        nf = rng.choice([1, 2, 3])
        plan["faults"] = [gen_fault(rng, nops, transport, ops, mp, extra_ok=True) for _ in range(nf)]
        return plan
    if family == "sweep":
        for o in ops:
            if o["op"] in ("write_memory", "read_memory", "receive_sb_file", "load_image", "kp_write_key_store", "fuse_program"):
                o["len"] = min(o["len"], 2 * mp + 3)
        kinds = ["flip", "drop", "trunc"] if transport == "uart" else ["drop", "abort", "short", "trunc"]
        plan["sweep"] = {"op": rng.randrange(nops), "kinds": kinds, "from": 0, "to": 400 if tier == "quick" else 3000, "stride": 1}
        return plan
    raise HarnessError(family)


_WARM = False


def warm_up() -> None:
    """Runs are executed in forked copies of the worker: do whatever is lazily initialised on first use once, here."""
    global _WARM
    if _WARM:
        return
    _WARM = True
    for i, fam in enumerate(["control", "faulty", "sdp_control", "sdp_faulty", "sdps", "control", "faulty"]):  # (not "props": its decodes are what a run must do itself)
        plan = gen_plan(fam, i, random.Random(3000 + i), "quick")
        for k, o in enumerate(plan.get("ops", [])):
            if o.get("op") in ("decode_property", "property_list"):
                # never in the warm-up: what a decode for another family leaves behind in the process is exactly what a run
                # must produce itself (a regression over the seeded changes showed the warm-up hiding C10-16 after the
                # operation mix, and with it the warm-up plans, had changed)
                plan["ops"][k] = {"op": "get_property", "tag": 1, "index": 0}
        execute(plan)
    CLOCK.reset()


def families(tier: str):
    if tier == "quick":
        return [("control", 1500), ("faulty", 4000), ("extra", 300), ("sweep", 80), ("lastpkt", 300), ("refused", 300), ("tprov", 300), ("props", 200), ("sdp_control", 600), ("sdp_faulty", 1200), ("sdps", 150)]
    return [("control", 40000), ("faulty", 110000), ("extra", 8000), ("sweep", 1500), ("lastpkt", 8000), ("refused", 8000), ("tprov", 8000), ("props", 5000), ("sdp_control", 15000), ("sdp_faulty", 40000), ("sdps", 2000)]


def reductions(plan: dict):
    if plan.get("sweep"):
        sw = plan["sweep"]
        # a sweep violation is re-expressed as a single-fault plan by trying each position directly
        if sw.get("to", 0) - sw.get("from", 0) > 1:
            mid = (sw["from"] + sw["to"]) // 2
            for a, b in ((sw["from"], mid), (mid, sw["to"])):
                c = copy.deepcopy(plan)
                c["sweep"].update({"from": a, "to": b})
                yield c
        if len(sw["kinds"]) > 1:
            for kd in sw["kinds"]:
                c = copy.deepcopy(plan)
                c["sweep"]["kinds"] = [kd]
                yield c
        if sw.get("to", 0) - sw.get("from", 0) == 1 and len(sw["kinds"]) == 1:
            c = copy.deepcopy(plan)
            pos = sw["from"]
            f = {"op": sw["op"], "dir": "d2h", "pos": pos, "kind": sw["kinds"][0]}
            if f["kind"] == "flip":
                f["bit"] = (pos * 7 + 3) % 8
            c.pop("sweep")
            c["faults"] = [f]
            yield c
        return
    # drop operations (fault op indices are remapped)
    n = len(plan["ops"])
    if n > 1:
        size = n // 2
        while size >= 1:
            for start in range(0, n, size):
                keep = [k for k in range(n) if not start <= k < start + size]
                c = copy.deepcopy(plan)
                c["ops"] = [plan["ops"][k] for k in keep]
                remap = {old: new for new, old in enumerate(keep)}
                c["faults"] = [dict(f, op=remap[f["op"]]) for f in plan.get("faults", []) if f["op"] in remap]
                if c["ops"]:
                    yield c
            size //= 2
    yield from ddmin_lists(plan, [["faults"]])
    for k, o in enumerate(plan["ops"]):
        if o.get("len", 0) > 1:
            for nl in (1, o["len"] // 2, plan.get("max_packet", 64), plan.get("max_packet", 64) + 1):
                if 0 < nl < o["len"]:
                    c = copy.deepcopy(plan)
                    c["ops"][k]["len"] = nl
                    yield c
    for key, val in (("not_ready", 0), ("slow_us", 0), ("cmd_exception", False), ("latency_us", 200), ("byte_us", 87)):
        if plan["knobs"].get(key) != val:
            c = copy.deepcopy(plan)
            c["knobs"][key] = val
            yield c
    for fi, f in enumerate(plan.get("faults", [])):
        if f.get("pos", 0) > 0:
            for np_ in (0, f["pos"] // 2, f["pos"] - 1):
                if np_ != f["pos"]:
                    c = copy.deepcopy(plan)
                    c["faults"][fi]["pos"] = np_
                    yield c
