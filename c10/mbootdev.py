"""Reference model of an MCU bootloader (mboot) device: command layer + UART framing + HID reports.

Written from the protocol definition (DESIGN.md appendix A), not from SPSDK's encoder.
The model records its own history: every command executed, every byte accepted in a data phase.
"""
from __future__ import annotations

import hashlib
import struct

# status codes (bootloader definitions)
OK = 0
FAIL = 1
INVALID_ARGUMENT = 4
UNKNOWN_COMMAND = 10000
ABORT_DATA_PHASE = 10002
MEMORY_RANGE_INVALID = 10200
UNKNOWN_PROPERTY = 10300
READONLY_PROPERTY = 10301
INVALID_PROPERTY_VALUE = 10302
OTP_ERR = 10900

T_ACK, T_NAK, T_ABORT, T_CMD, T_DATA, T_PING, T_PINGR = 0xA1, 0xA2, 0xA3, 0xA4, 0xA5, 0xA6, 0xA7

(
    C_FLASH_ERASE_ALL, C_FLASH_ERASE_REGION, C_READ_MEMORY, C_WRITE_MEMORY, C_FILL_MEMORY, C_FLASH_SECURITY_DISABLE,
    C_GET_PROPERTY, C_RECEIVE_SB, C_EXECUTE, C_CALL, C_RESET, C_SET_PROPERTY, C_ERASE_ALL_UNSECURE, C_PROGRAM_ONCE,
    C_READ_ONCE, C_READ_RESOURCE, C_CONFIGURE_MEMORY, C_RELIABLE_UPDATE, C_GEN_KEY_BLOB, C_FUSE_PROGRAM, C_KEY_PROV,
    C_TRUST_PROV, C_FUSE_READ, C_UPDATE_LIFE_CYCLE, C_ELE_MESSAGE,
) = range(1, 26)

R_GENERIC, R_READ_MEMORY, R_GET_PROPERTY, R_READ_ONCE, R_READ_RESOURCE, R_KEY_BLOB, R_KEY_PROV, R_TRUST_PROV = (
    0xA0, 0xA3, 0xA7, 0xAF, 0xB0, 0xB3, 0xB5, 0xB6,
)

P_MAX_PACKET_SIZE = 0x0B
C_EL2GO = 0x20


def tp_values(tag: int, params) -> list[int]:
    """Value words a trust-provisioning style command is answered with (1..3 words, a function of what was asked)."""
    h = hashlib.sha256(repr((tag, tuple(params))).encode()).digest()
    n = 1 + h[0] % 3
    return [int.from_bytes(h[4 + 4 * i : 8 + 4 * i], "little") | 1 for i in range(n)]


def crc16_xmodem(data: bytes) -> int:
    crc = 0
    for b in data:
        crc ^= b << 8
        for _ in range(8):
            crc = ((crc << 1) ^ 0x1021) & 0xFFFF if crc & 0x8000 else (crc << 1) & 0xFFFF
    return crc


_CRC_TABLE = []
for _i in range(256):
    _c = _i << 8
    for _ in range(8):
        _c = ((_c << 1) ^ 0x1021) & 0xFFFF if _c & 0x8000 else (_c << 1) & 0xFFFF
    _CRC_TABLE.append(_c)


def crc16(data: bytes, crc: int = 0) -> int:
    for b in data:
        crc = ((crc << 8) & 0xFFFF) ^ _CRC_TABLE[((crc >> 8) ^ b) & 0xFF]
    return crc


def key_blob_of(dek: bytes, key_sel: int, count: int) -> bytes:
    out = b""
    i = 0
    while len(out) < count:
        out += hashlib.sha256(b"blob" + bytes([key_sel & 0xFF, i]) + dek).digest()
        i += 1
    return out[:count]


class Memory:
    """Sparse byte memory with a flash region (erased = 0xFF) and a RAM region (reset = 0x00)."""

    REGIONS = [("flash", 0x0000_0000, 0x0010_0000, 0xFF), ("ram", 0x2000_0000, 0x0010_0000, 0x00), ("xip", 0x6000_0000, 0x0010_0000, 0xFF)]

    def __init__(self) -> None:
        self.bytes: dict[int, int] = {}

    def region(self, addr: int, length: int):
        for name, start, size, fillv in self.REGIONS:
            if start <= addr and addr + length <= start + size:
                return name, fillv
        return None

    def read(self, addr: int, length: int) -> bytes:
        _, fillv = self.region(addr, length)
        return bytes(self.bytes.get(a, fillv) for a in range(addr, addr + length))

    def write(self, addr: int, data: bytes) -> None:
        for i, b in enumerate(data):
            self.bytes[addr + i] = b

    def erase(self, addr: int, length: int) -> None:
        for a in range(addr, addr + length):
            self.bytes.pop(a, None)

    def erase_all(self, name="flash") -> None:
        for rn, start, size, _ in self.REGIONS:
            if rn == name:
                for a in [a for a in self.bytes if start <= a < start + size]:
                    del self.bytes[a]


class MbootCore:
    """Command layer: parses command packets, executes them on the memory model, produces responses."""

    def __init__(self, max_packet: int, knobs: dict) -> None:
        self.max_packet = max_packet
        self.mem = Memory()
        self.props = {
            1: [0x4B030000],  # current version
            2: [0x17],  # available peripherals
            3: [0x0],  # flash start
            4: [0x100000],  # flash size
            5: [0x1000],  # sector size
            7: [0x7FFFFF],  # available commands
            10: [1],  # verify writes (writable)
            P_MAX_PACKET_SIZE: [max_packet],
            12: [0, 0, 0, 0],  # reserved regions
            14: [0x20000000],  # ram start
            15: [0x100000],  # ram size
            17: [0],  # security state
            18: [0x11223344, 0x55667788, 0x99AABBCC, 0xDDEEFF00],  # unique id
            0x14: [2048],  # flash access segment size
            0x15: [64],  # flash access segment count
            0x16: [2],  # flash read margin
            22: [5],  # irq notifier pin (writable)
            0x40: [0xC0DE0040],  # vendor-specific properties outside the host's enumeration (0x40 writable)
            0xC8: [0x11111111, 0x22222222],
        }
        if knobs.get("long_props"):
            # answers with more value words than fit the 32 bytes of a padded host command (the framing carries them)
            self.props[12] = [0x0, 0x3FF, 0x2000_0000, 0x2000_0FFF, 0x3000_0000, 0x3000_00FF, 0x1000_0000, 0x1000_7FFF]
            self.props[0xC8] = [0x11111111 * k for k in range(1, 8)]
        self.writable_props = {10, 22, 0x40}
        self.otp: dict[int, bytes] = {}
        self.fuses: dict[int, bytes] = {}
        self.keys: dict[int, bytes] = {}
        self.key_store = b""
        self.nonvolatile = False
        self.history: list = []  # executed commands
        self.data_in: list = []  # [(tag, bytes)] accepted data phases
        self.cur = None  # current data phase: dict
        self.max_payload_seen = 0
        self.status_sent: list = []  # every status word sent in a response
        self.status_ctx: list = []  # parallel: (command tag, first parameter) of the command the response belongs to
        self.ctx = (0, None)
        self.knobs = knobs
        self.cmd_count = 0
        self.err_plan: dict = {}  # cmd index -> ("initial"|"final", status)
        self.abort_plan: dict = {}  # cmd index -> abort after j packets
        self.sb_sink = None  # optional callable(bytes so far, final) -> status (C04/C05 ROM loader models)
        self.fired: dict = {}

    def fire(self, kind: str) -> None:
        self.fired[kind] = self.fired.get(kind, 0) + 1

    # -- response builders
    def resp(self, tag: int, *words: int, flags: int = 0) -> bytes:
        self.status_sent.append(words[0])
        self.status_ctx.append(self.ctx)
        return struct.pack("<4B", tag, flags, 0, len(words)) + struct.pack(f"<{len(words)}I", *words)

    def generic(self, status: int, cmd_tag: int) -> bytes:
        return self.resp(R_GENERIC, status, cmd_tag)

    # -- command execution
    def command(self, pkt: bytes):
        """Returns (response packet, data phase or None).

        data phase: {"dir": "in", "tag", "length", "buf", "finish"} host->device,
                    {"dir": "out", "tag", "data", "final_status"} device->host.
        """
        if len(pkt) < 4:
            return self.generic(INVALID_ARGUMENT, 0), None
        tag, flags, _rsv, n = struct.unpack_from("<4B", pkt)
        if len(pkt) < 4 + 4 * n:
            return self.generic(INVALID_ARGUMENT, tag), None
        p = list(struct.unpack_from(f"<{n}I", pkt, 4))
        self.ctx = (tag, p[0] if p else None)
        idx = self.cmd_count
        self.cmd_count += 1
        self.cur = None
        err = self.err_plan.get(idx)
        if err and err[0] == "initial":
            self.fire("dev_error_initial")
            self.history.append(("refused", tag, tuple(p), err[1]))
            if tag in (C_READ_MEMORY,):
                return self.resp(R_READ_MEMORY, err[1], 0), None
            if tag == C_GET_PROPERTY:
                return self.resp(R_GET_PROPERTY, err[1]), None
            if tag in (C_TRUST_PROV, C_EL2GO) and not self.knobs.get("tp_refuse_generic"):
                # a refused trust-provisioning command is answered in its own response format: the status, no values
                self.fire("dev_error_tp_response")
                return self.resp(R_TRUST_PROV, err[1]), None
            return self.generic(err[1], tag), None
        final_override = err[1] if err and err[0] == "final" else None
        try:
            return self._exec(tag, flags, p, idx, final_override)
        except IndexError:
            self.history.append(("bad-params", tag, tuple(p)))
            return self.generic(INVALID_ARGUMENT, tag), None

    def _in_phase(self, tag: int, length: int, finish, idx: int, final_override):
        ph = {"dir": "in", "tag": tag, "length": length, "buf": bytearray(), "finish": finish, "packets": 0, "abort_after": self.abort_plan.get(idx), "final_override": final_override}
        self.cur = ph
        return ph

    def _out_phase(self, tag: int, data: bytes, final_override):
        st = OK
        if final_override is not None:
            st = final_override
            self.fire("dev_error_final")
        return {"dir": "out", "tag": tag, "data": data, "final_status": st}

    def _exec(self, tag, flags, p, idx, fo):
        H = self.history
        mem = self.mem
        if tag == C_GET_PROPERTY:
            prop, index = p[0], (p[1] if len(p) > 1 else 0)
            if prop not in self.props:
                H.append(("get_property", prop, index, UNKNOWN_PROPERTY))
                return self.resp(R_GET_PROPERTY, UNKNOWN_PROPERTY), None
            H.append(("get_property", prop, index, OK))
            return self.resp(R_GET_PROPERTY, OK, *self.props[prop]), None
        if tag == C_SET_PROPERTY:
            prop, value = p[0], p[1]
            if prop not in self.props:
                st = UNKNOWN_PROPERTY
            elif prop not in self.writable_props:
                st = READONLY_PROPERTY
            else:
                st = OK
                self.props[prop] = [value]
            H.append(("set_property", prop, value, st))
            return self.generic(fo if fo is not None and st == OK else st, tag), None
        if tag == C_READ_MEMORY:
            addr, length = p[0], p[1]
            memid = p[2] if len(p) > 2 else 0
            if mem.region(addr, length) is None:
                H.append(("read_memory", addr, length, memid, MEMORY_RANGE_INVALID))
                return self.resp(R_READ_MEMORY, MEMORY_RANGE_INVALID, 0), None
            data = mem.read(addr, length)
            H.append(("read_memory", addr, length, memid, OK))
            return self.resp(R_READ_MEMORY, OK, length, flags=1), self._out_phase(tag, data, fo)
        if tag == C_WRITE_MEMORY:
            addr, length = p[0], p[1]
            memid = p[2] if len(p) > 2 else 0
            if mem.region(addr, length) is None or not flags & 1:
                H.append(("write_memory", addr, length, memid, MEMORY_RANGE_INVALID))
                return self.generic(MEMORY_RANGE_INVALID, tag), None

            def fin(buf, addr=addr, memid=memid):
                mem.write(addr, bytes(buf))
                H.append(("write_memory", addr, len(buf), memid, OK))
                return OK

            return self.generic(OK, tag), self._in_phase(tag, length, fin, idx, fo)
        if tag == C_FILL_MEMORY:
            addr, length, pattern = p[0], p[1], p[2]
            if mem.region(addr, length) is None or addr % 4 or length % 4:
                st = MEMORY_RANGE_INVALID if mem.region(addr, length) is None else INVALID_ARGUMENT
                H.append(("fill_memory", addr, length, pattern, st))
                return self.generic(st, tag), None
            mem.write(addr, struct.pack("<I", pattern) * (length // 4))
            H.append(("fill_memory", addr, length, pattern, OK))
            return self.generic(OK if fo is None else fo, tag), None
        if tag == C_FLASH_ERASE_REGION:
            addr, length = p[0], p[1]
            memid = p[2] if len(p) > 2 else 0
            if mem.region(addr, length) is None:
                H.append(("flash_erase_region", addr, length, memid, MEMORY_RANGE_INVALID))
                return self.generic(MEMORY_RANGE_INVALID, tag), None
            mem.erase(addr, length)
            H.append(("flash_erase_region", addr, length, memid, OK))
            return self.generic(OK if fo is None else fo, tag), None
        if tag in (C_FLASH_ERASE_ALL, C_ERASE_ALL_UNSECURE):
            memid = p[0] if p else 0
            mem.erase_all("flash")
            H.append(("flash_erase_all" if tag == C_FLASH_ERASE_ALL else "flash_erase_all_unsecure", memid, OK))
            return self.generic(OK if fo is None else fo, tag), None
        if tag == C_FLASH_SECURITY_DISABLE:
            H.append(("flash_security_disable", p[0], p[1], OK))
            return self.generic(OK if fo is None else fo, tag), None
        if tag == C_RECEIVE_SB:
            length = p[0]

            def fin_sb(buf):
                data = bytes(buf)
                st = OK
                if self.sb_sink is not None:
                    st = self.sb_sink(data)
                H.append(("receive_sb_file", len(data), hashlib.sha256(data).hexdigest()[:16], st))
                return st

            return self.generic(OK, tag), self._in_phase(tag, length, fin_sb, idx, fo)
        if tag == C_EXECUTE:
            H.append(("execute", p[0], p[1], p[2], OK))
            return self.generic(OK if fo is None else fo, tag), None
        if tag == C_CALL:
            H.append(("call", p[0], p[1], OK))
            return self.generic(OK if fo is None else fo, tag), None
        if tag == C_RESET:
            H.append(("reset", OK))
            return self.generic(OK, tag), None
        if tag == C_PROGRAM_ONCE:
            index, count = p[0], p[1]
            data = struct.pack(f"<{len(p) - 2}I", *p[2:])[:count]
            if count not in (4, 8) or len(data) != count:
                H.append(("program_once", index, count, INVALID_ARGUMENT))
                return self.generic(INVALID_ARGUMENT, tag), None
            old = self.otp.get(index & 0xFFFFFF, b"\0" * count).ljust(count, b"\0")
            self.otp[index & 0xFFFFFF] = bytes(a | b for a, b in zip(old, data))
            H.append(("program_once", index, data.hex(), OK))
            return self.generic(OK if fo is None else fo, tag), None
        if tag == C_READ_ONCE:
            index, count = p[0], p[1]
            if count not in (4, 8):
                H.append(("read_once", index, count, INVALID_ARGUMENT))
                return self.resp(R_READ_ONCE, INVALID_ARGUMENT, 0), None
            data = self.otp.get(index & 0xFFFFFF, b"\0" * count).ljust(count, b"\0")[:count]
            H.append(("read_once", index, count, OK))
            return self.resp(R_READ_ONCE, OK, count, *struct.unpack(f"<{count // 4}I", data)), None
        if tag == C_READ_RESOURCE:
            addr, length, option = p[0], p[1], p[2]
            if length % 4 or length > 512:
                H.append(("read_resource", addr, length, option, INVALID_ARGUMENT))
                return self.resp(R_READ_RESOURCE, INVALID_ARGUMENT, 0), None
            data = (hashlib.sha256(b"resource%d:%d" % (option, addr)).digest() * 17)[:length]
            H.append(("read_resource", addr, length, option, OK))
            return self.resp(R_READ_RESOURCE, OK, length, flags=1), self._out_phase(tag, data, fo)
        if tag == C_CONFIGURE_MEMORY:
            H.append(("configure_memory", p[0], p[1], OK))
            return self.generic(OK if fo is None else fo, tag), None
        if tag == C_RELIABLE_UPDATE:
            H.append(("reliable_update", p[0], OK))
            return self.generic(OK if fo is None else fo, tag), None
        if tag == C_GEN_KEY_BLOB:
            key_sel, count_or_len, phase = p[0], p[1], p[2]
            if phase == 0:

                def fin_dek(buf, key_sel=key_sel):
                    self.keys[-1] = bytes(buf)
                    H.append(("key_blob_dek", key_sel, bytes(buf).hex(), OK))
                    return OK

                return self.resp(R_KEY_BLOB, OK, count_or_len), self._in_phase(tag, count_or_len, fin_dek, idx, fo)
            blob = key_blob_of(self.keys.get(-1, b""), key_sel, count_or_len)
            H.append(("key_blob_get", key_sel, count_or_len, OK))
            return self.resp(R_KEY_BLOB, OK, len(blob), flags=1), self._out_phase(tag, blob, fo)
        if tag == C_KEY_PROV:
            op = p[0]
            if op == 0:
                H.append(("kp_enroll", OK))
                return self.generic(OK if fo is None else fo, tag), None
            if op == 2:
                self.keys[p[1]] = hashlib.sha256(b"intrinsic%d" % p[1]).digest()[: p[2]]
                H.append(("kp_set_intrinsic_key", p[1], p[2], OK))
                return self.generic(OK if fo is None else fo, tag), None
            if op == 3:
                self.nonvolatile = True
                H.append(("kp_write_nonvolatile", p[1], OK))
                return self.generic(OK if fo is None else fo, tag), None
            if op == 4:
                H.append(("kp_read_nonvolatile", p[1], OK))
                return self.generic(OK if fo is None else fo, tag), None
            if op == 1:
                ktype, length = p[1], p[2]

                def fin_key(buf, ktype=ktype):
                    self.keys[ktype] = bytes(buf)
                    H.append(("kp_set_user_key", ktype, bytes(buf).hex(), OK))
                    return OK

                return self.resp(R_KEY_PROV, OK, length), self._in_phase(tag, length, fin_key, idx, fo)
            if op == 5:
                length = p[2]

                def fin_ks(buf):
                    self.key_store = bytes(buf)
                    H.append(("kp_write_key_store", len(buf), OK))
                    return OK

                return self.resp(R_KEY_PROV, OK, length), self._in_phase(tag, length, fin_ks, idx, fo)
            if op == 6:
                H.append(("kp_read_key_store", len(self.key_store), OK))
                if not self.key_store:
                    return self.resp(R_KEY_PROV, FAIL, 0), None
                return self.resp(R_KEY_PROV, OK, len(self.key_store), flags=1), self._out_phase(tag, self.key_store, fo)
            H.append(("kp_unknown", op, INVALID_ARGUMENT))
            return self.generic(INVALID_ARGUMENT, tag), None
        if tag == C_FUSE_PROGRAM:
            addr, length = p[0], p[1]
            memid = p[2] if len(p) > 2 else 0

            def fin_fuse(buf, addr=addr):
                self.fuses[addr] = bytes(buf)
                H.append(("fuse_program", addr, bytes(buf).hex(), OK))
                return OK

            return self.generic(OK, tag), self._in_phase(tag, length, fin_fuse, idx, fo)
        if tag == C_FUSE_READ:
            addr, length = p[0], p[1]
            data = self.fuses.get(addr, b"").ljust(length, b"\0")[:length]
            H.append(("fuse_read", addr, length, OK))
            return self.resp(R_READ_MEMORY, OK, length, flags=1), self._out_phase(tag, data, fo)
        if tag == C_UPDATE_LIFE_CYCLE:
            H.append(("update_life_cycle", p[0], OK))
            return self.generic(OK if fo is None else fo, tag), None
        if tag in (C_TRUST_PROV, C_EL2GO):
            H.append(("tp", tag, tuple(p), OK))
            if fo is not None:
                return self.resp(R_TRUST_PROV, fo), None
            return self.resp(R_TRUST_PROV, OK, *tp_values(tag, p)), None
        if tag == C_ELE_MESSAGE:
            H.append(("ele_message", tuple(p), OK))
            return self.generic(OK if fo is None else fo, tag), None
        H.append(("unknown", tag, tuple(p)))
        return self.generic(UNKNOWN_COMMAND, tag), None

    # -- incoming data phase
    def data_packet(self, payload: bytes):
        """Host->device data packet. Returns ("more", None) | ("abort", final_resp) | ("done", final_resp)."""
        ph = self.cur
        if ph is None or ph["dir"] != "in":
            # load-image style data with no command: accept and record
            self.max_payload_seen = max(self.max_payload_seen, len(payload))
            if not self.data_in or self.data_in[-1][0] != 0 or self.data_in[-1][2]:
                self.data_in.append([0, bytearray(), False])
            self.data_in[-1][1].extend(payload)
            return "more", None
        self.max_payload_seen = max(self.max_payload_seen, len(payload))
        if ph["abort_after"] is not None and ph["packets"] >= ph["abort_after"]:
            self.fire("dev_abort_data_phase")
            self.cur = None
            self.history.append(("aborted", ph["tag"], len(ph["buf"])))
            return "abort", self.generic(ABORT_DATA_PHASE, ph["tag"])
        ph["packets"] += 1
        ph["buf"].extend(payload)
        if len(ph["buf"]) >= ph["length"]:
            self.cur = None
            buf = ph["buf"][: ph["length"]] if ph["length"] else ph["buf"]
            self.data_in.append([ph["tag"], bytearray(ph["buf"]), True])
            st = ph["finish"](buf)
            if ph["final_override"] is not None and st == OK:
                st = ph["final_override"]
                self.fire("dev_error_final")
            return "done", self.generic(st, ph["tag"])
        return "more", None

    def chunks(self, data: bytes) -> list[bytes]:
        m = self.max_packet
        return [data[i : i + m] for i in range(0, len(data), m)] or []


class UartDevice:
    """UART framing engine. feed(bytes, t) -> list of (delay_us, bytes) chunks to transmit."""

    def __init__(self, core: MbootCore, knobs: dict) -> None:
        self.core = core
        self.knobs = knobs
        self.rx = bytearray()
        self.last_rx = 0
        self.await_ack = None  # continuation after the host's ACK
        self.out_queue: list = []  # frames waiting for the host's ACK of the previous one
        self.frames_rx: list = []
        self.ack_plan: dict = {}  # ack index -> "nak" | "abort"
        self.frame_plan: dict = {}  # outgoing frame index -> "abort"
        self.acks_sent = 0
        self.frames_sent = 0
        self.not_ready = knobs.get("not_ready", 0)
        self.inter_byte_reset_us = 20000

    def reset_protocol(self) -> None:
        self.rx.clear()
        self.await_ack = None
        self.out_queue = []
        self.core.cur = None

    # -- frame builders
    def frame(self, ftype: int, payload: bytes) -> bytes:
        hdr = struct.pack("<BBH", 0x5A, ftype, len(payload))
        crc = crc16(hdr + payload)
        return hdr + struct.pack("<H", crc) + payload

    def ack(self) -> bytes:
        i = self.acks_sent
        self.acks_sent += 1
        sub = self.ack_plan.get(i)
        if sub == "nak":
            self.core.fire("nak_for_ack")
            return b"\x5a\xa2"
        if sub == "abort":
            self.core.fire("abort_for_ack")
            return b"\x5a\xa3"
        return b"\x00" * self.not_ready + b"\x5a\xa1"

    def tx_frame(self, ftype: int, payload: bytes) -> bytes:
        i = self.frames_sent
        self.frames_sent += 1
        if self.frame_plan.get(i) == "abort":
            self.core.fire("abort_for_frame")
            return b"\x5a\xa3"
        return b"\x00" * self.not_ready + self.frame(ftype, payload)

    # -- receive path
    def feed(self, data: bytes, t_us: int) -> list[bytes]:
        if self.rx and t_us - self.last_rx > self.inter_byte_reset_us:
            self.rx.clear()
        self.last_rx = t_us
        self.rx.extend(data)
        out: list[bytes] = []
        while True:
            # hunt for start byte
            while self.rx and self.rx[0] != 0x5A:
                del self.rx[0]
            if len(self.rx) < 2:
                break
            ftype = self.rx[1]
            if ftype in (T_ACK, T_NAK, T_ABORT, T_PING):
                del self.rx[:2]
                out += self.on_short(ftype)
                continue
            if ftype not in (T_CMD, T_DATA):
                del self.rx[0]
                continue
            if len(self.rx) < 6:
                break
            length, crc = struct.unpack_from("<HH", self.rx, 2)
            if length > 2048:
                del self.rx[0]
                continue
            if len(self.rx) < 6 + length:
                break
            payload = bytes(self.rx[6 : 6 + length])
            ok = crc16(bytes(self.rx[:4]) + payload) == crc
            del self.rx[: 6 + length]
            if not ok:
                self.frames_rx.append(("badcrc", ftype, length))
                out.append(b"\x5a\xa2")
                continue
            self.frames_rx.append((ftype, length))
            out += self.on_frame(ftype, payload)
        return out

    def on_short(self, ftype: int) -> list[bytes]:
        if ftype == T_PING:
            self.reset_protocol()
            body = bytes([0x5A, T_PINGR, 0, 3, 1, ord("P"), 0, 0])
            return [(body + struct.pack("<H", crc16(body)), None, "ping-response")]
        if ftype == T_ACK:
            if self.await_ack:
                cont, self.await_ack = self.await_ack, None
                return cont()
            return []
        if ftype == T_NAK:
            # host asks for a retransmission; this model does not retransmit (SPSDK never NAKs)
            return []
        return []

    def on_frame(self, ftype: int, payload: bytes) -> list[bytes]:
        core = self.core
        if ftype == T_CMD:
            self.await_ack = None
            resp, phase = core.command(payload)
            out = [(self.ack(), None, "ack-of-command")]
            out.append((self.tx_frame(T_CMD, resp), "slow", "initial-response"))  # command execution time precedes the response
            if phase and phase["dir"] == "out":
                chunks = core.chunks(phase["data"])
                final = core.generic(phase["final_status"], phase["tag"])
                # error in the final response: the device stops the data phase half way
                if phase["final_status"] != OK and len(chunks) > 1:
                    chunks = chunks[: len(chunks) // 2]
                seq = [(T_DATA, c) for c in chunks] + [(T_CMD, final)]

                def make(i):
                    def cont():
                        ft, pl = seq[i]
                        if i + 1 < len(seq):
                            self.await_ack = make(i + 1)
                        return [(self.tx_frame(ft, pl), None, "data-out" if ft == T_DATA else "final-response")]

                    return cont

                self.await_ack = make(0)
            else:
                self.await_ack = lambda: []
            return out
        # DATA frame
        planned = self.ack_plan.get(self.acks_sent)
        if planned in ("nak", "abort"):
            # a device that answers a data packet with NAK or ABORT has not taken it (NAK: it waits for the packet again,
            # ABORT: the data phase is over)
            frame = self.ack()
            if planned == "abort" and core.cur is not None and core.cur.get("dir") == "in":
                ph = core.cur
                core.cur = None
                core.history.append(("aborted", ph["tag"], len(ph["buf"])))
                self.await_ack = lambda: []
                return [(frame, None, "ack-of-data"), (self.tx_frame(T_CMD, core.generic(ABORT_DATA_PHASE, ph["tag"])), None, "final-response")]
            return [(frame, None, "ack-of-data")]
        kind, final = core.data_packet(payload)
        if kind == "more":
            return [(self.ack(), None, "ack-of-data")]
        if kind == "abort":
            self.acks_sent += 1
            self.await_ack = lambda: []
            return [(b"\x5a\xa3", None, "abort"), (self.tx_frame(T_CMD, final), None, "final-response")]
        self.await_ack = lambda: []
        return [(self.ack(), None, "ack-of-data"), (self.tx_frame(T_CMD, final), "slow", "final-response")]


class HidDevice:
    """HID report engine. report(bytes) -> list of reports to send to the host."""

    def __init__(self, core: MbootCore, knobs: dict) -> None:
        self.core = core
        self.knobs = knobs
        self.reports_rx: list = []

    def reset_protocol(self) -> None:
        self.core.cur = None

    @staticmethod
    def rep(rid: int, payload: bytes) -> bytes:
        return struct.pack("<2BH", rid, 0, len(payload)) + payload

    def report(self, data: bytes) -> list[bytes]:
        core = self.core
        if len(data) < 4:
            return []
        rid, _, plen = struct.unpack_from("<2BH", data)
        payload = bytes(data[4 : 4 + plen])
        self.reports_rx.append((rid, plen))
        if rid == 1:
            resp, phase = core.command(payload)
            out = [(self.rep(3, resp), "slow", "initial-response")]
            if phase and phase["dir"] == "out":
                chunks = core.chunks(phase["data"])
                if phase["final_status"] != OK and len(chunks) > 1:
                    chunks = chunks[: len(chunks) // 2]
                out += [(self.rep(4, c), None, "data-out") for c in chunks]
                out.append((self.rep(3, core.generic(phase["final_status"], phase["tag"])), None, "final-response"))
            return out
        if rid == 2:
            kind, final = core.data_packet(payload)
            if kind == "more":
                return []
            if kind == "abort":
                return [(self.rep(4, b""), None, "abort"), (self.rep(3, final), None, "final-response")]
            return [(self.rep(3, final), "slow", "final-response")]
        return []
