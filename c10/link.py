"""Simulated link: what SPSDK sees behind the third-party driver boundary (pyserial Serial, libusbsio HID).

The host is synchronous, the device model is reactive; the link keeps per-item arrival times and the
simulated clock (simkit.simtime.CLOCK) is advanced by reads, writes and sleeps only.
"""
from __future__ import annotations

from simkit.simtime import CLOCK


class SerialTimeoutException(Exception):
    pass


class FaultPlan:
    """Faults for the current operation, addressed by stream position."""

    def __init__(self) -> None:
        self.d2h: dict[int, list] = {}  # position -> [fault...]
        self.h2d: dict[int, list] = {}
        self.d2h_pos = 0
        self.h2d_pos = 0
        self.silenced = False  # truncated response: nothing more reaches the host during this operation
        self.stall_us = 0
        self.fired: dict = {}
        self.extra_fired: dict = {}
        self.where: dict = {}  # (fault kind @ protocol phase of the hit item) -> count: reach, not verdict
        self.label = "?"

    def fire(self, kind: str, extra: bool = False) -> None:
        d = self.extra_fired if extra else self.fired
        d[kind] = d.get(kind, 0) + 1
        key = f"{kind}@{self.label}"
        self.where[key] = self.where.get(key, 0) + 1

    def any_fired(self) -> bool:
        return bool(self.fired) or bool(self.extra_fired)


class Link:
    """Shared state between the Sim driver objects and the device engine."""

    def __init__(self, kind: str, engine, knobs: dict, log) -> None:
        self.kind = kind  # "uart" | "hid"
        self.engine = engine
        self.knobs = knobs
        self.log = log
        self.byte_us = knobs.get("byte_us", 87)  # 115200 baud, 8N1
        self.latency_us = knobs.get("latency_us", 200)
        self.rxq: list = []  # uart: [arrival_us, byte]; hid: [arrival_us, report bytes]
        self.tail_us = 0  # time at which the device's transmitter becomes free
        self.faults = FaultPlan()
        self.io_calls = 0
        self.h2d_stream = bytearray()
        self.d2h_total = 0
        self.opened = False
        self.max_io_calls = 10_000_000
        self.slow_cmd: dict = {}

    def new_op(self, faults: FaultPlan) -> None:
        self.faults = faults
        self.io_calls = 0

    def tick_io(self) -> None:
        self.io_calls += 1
        if self.io_calls > self.max_io_calls:
            raise Unbounded(f"more than {self.max_io_calls} link I/O calls in one API call")

    # ---- device -> host
    def dev_emit_bytes(self, data: bytes, t0: int) -> None:
        """UART: queue bytes with arrival times, applying d2h faults by stream position."""
        f = self.faults
        t = max(t0, self.tail_us)
        for b in data:
            pos = f.d2h_pos
            f.d2h_pos += 1
            self.d2h_total += 1
            t += self.byte_us
            if f.silenced:
                continue
            drop = False
            for flt in f.d2h.get(pos, ()):
                kind = flt["kind"]
                if kind == "flip":
                    b ^= 1 << (flt.get("bit", 0) & 7)
                    f.fire("d2h_flip")
                elif kind == "drop":
                    drop = True
                    f.fire("d2h_drop")
                elif kind == "trunc":
                    f.silenced = True
                    drop = True
                    f.fire("d2h_truncate")
                elif kind == "stall":
                    # a response that arrives *late* (after its time-out, possibly during a later exchange of the same
                    # call) is neither "truncated" nor "missing": not a fault kind the statement names -> extra class
                    f.stall_us += int(flt.get("us", 10_000_000))
                    f.fire("d2h_late", extra=True)
                elif kind == "insert":
                    self.rxq.append([t + f.stall_us, flt.get("byte", 0x5A)])
                    f.fire("d2h_insert", extra=True)
            if drop:
                continue
            self.rxq.append([t + f.stall_us, b])
        self.tail_us = t

    def dev_emit_report(self, rep: bytes, t0: int) -> None:
        f = self.faults
        pos = f.d2h_pos
        f.d2h_pos += 1
        self.d2h_total += 1
        t = max(t0, self.tail_us) + self.knobs.get("report_us", 125)
        self.tail_us = t
        if f.silenced:
            return
        for flt in f.d2h.get(pos, ()):
            kind = flt["kind"]
            if kind == "drop":
                f.fire("hid_missing_report")
                return
            if kind == "trunc":
                f.silenced = True
                f.fire("hid_silence")
                return
            if kind == "abort":
                rep = bytes([rep[0] if rep else 4, 0, 0, 0])
                f.fire("hid_abort_report")
            elif kind == "short":
                rep = rep[: max(0, min(len(rep) - 1, flt.get("len", 2)))]
                f.fire("hid_short_report")
            elif kind == "stall":
                f.stall_us += int(flt.get("us", 10_000_000))
                f.fire("hid_late_report", extra=True)
            elif kind == "dup":
                self.rxq.append([t + f.stall_us, rep])
                f.fire("hid_dup_report", extra=True)
        self.rxq.append([t + f.stall_us, rep])

    # ---- host -> device (UART)
    def host_write_bytes(self, data: bytes) -> None:
        f = self.faults
        f.label = "host-frame"
        out = bytearray()
        for b in data:
            pos = f.h2d_pos
            f.h2d_pos += 1
            drop = False
            for flt in f.h2d.get(pos, ()):
                if flt["kind"] == "flip":
                    b ^= 1 << (flt.get("bit", 0) & 7)
                    f.fire("h2d_flip")
                elif flt["kind"] == "drop":
                    drop = True
                    f.fire("h2d_drop")
            if not drop:
                out.append(b)
        CLOCK.advance(len(data) * self.byte_us)
        now = CLOCK.now_us
        self.h2d_stream += out
        replies = self.engine.feed(bytes(out), now)
        t = now + self.latency_us
        for chunk in replies:
            label = "?"
            if isinstance(chunk, tuple):
                if chunk[1] == "slow":
                    t += self.slow_extra()
                label = chunk[2] if len(chunk) > 2 else "?"
                chunk = chunk[0]
            self.faults.label = label
            self.dev_emit_bytes(chunk, t)

    def slow_extra(self) -> int:
        return int(self.knobs.get("slow_us", 0))

    def host_write_report(self, data: bytes) -> None:
        f = self.faults
        f.label = "host-report"
        pos = f.h2d_pos
        f.h2d_pos += 1
        CLOCK.advance(self.knobs.get("report_us", 125))
        for flt in f.h2d.get(pos, ()):
            if flt["kind"] == "drop":
                f.fire("hid_out_report_lost", extra=True)
                return
        now = CLOCK.now_us
        t = now + self.latency_us
        for rep in self.engine.report(bytes(data)):
            label = "?"
            if isinstance(rep, tuple):
                if rep[1] == "slow":
                    t += self.slow_extra()
                label = rep[2] if len(rep) > 2 else "?"
                rep = rep[0]
            self.faults.label = label
            self.dev_emit_report(rep, t)

    def drain(self) -> None:
        """Let the link go quiet (used between histories after a faulted operation)."""
        CLOCK.advance(30_000_000)
        self.rxq.clear()
        self.tail_us = CLOCK.now_us
        self.engine.reset_protocol()


class Unbounded(BaseException):
    pass


class SimSerial:
    """The pyserial surface SPSDK uses."""

    link: Link = None  # set by the simulator before SerialDevice() is constructed

    def __init__(self, port=None, timeout=None, write_timeout=None, baudrate=115200, **_kw) -> None:
        self.port = port
        self.timeout = timeout
        self.write_timeout = write_timeout
        self.baudrate = baudrate
        self.is_open = False
        self._link = SimSerial.link
        if port is not None:
            self.open()

    def open(self) -> None:
        self.is_open = True
        self._link.opened = True

    def close(self) -> None:
        self.is_open = False
        self._link.opened = False

    def reset_input_buffer(self) -> None:
        lk = self._link
        now = CLOCK.now_us
        lk.rxq = [it for it in lk.rxq if it[0] > now]

    def reset_output_buffer(self) -> None:
        pass

    def flush(self) -> None:
        pass

    def write(self, data) -> int:
        lk = self._link
        lk.tick_io()
        lk.log.add("w", len(data))
        lk.host_write_bytes(bytes(data))
        return len(data)

    def read(self, size: int = 1) -> bytes:
        lk = self._link
        lk.tick_io()
        timeout_us = int((self.timeout if self.timeout is not None else 3600) * 1e6)
        deadline = CLOCK.now_us + timeout_us
        q = lk.rxq
        q.sort(key=lambda it: it[0])
        k = 0
        while k < len(q) and k < size and q[k][0] <= deadline:
            k += 1
        take = q[:k]
        del q[:k]
        if k >= size:
            CLOCK.now_us = max(CLOCK.now_us, take[-1][0]) if take else CLOCK.now_us
        else:
            CLOCK.now_us = deadline
        data = bytes(it[1] for it in take)
        lk.log.add("r", size, len(data))
        return data

    @property
    def in_waiting(self) -> int:
        return sum(1 for it in self._link.rxq if it[0] <= CLOCK.now_us)


class SimHid:
    """The libusbsio HID_DEVICE surface SPSDK uses."""

    def __init__(self, link: Link) -> None:
        self._link = link
        self.opened = False

    def Open(self, path) -> None:  # noqa: N802
        self.opened = True
        self._link.opened = True

    def Close(self) -> None:  # noqa: N802
        self.opened = False
        self._link.opened = False

    def Write(self, data, timeout_ms: int = 0) -> int:  # noqa: N802
        lk = self._link
        lk.tick_io()
        lk.log.add("W", len(data))
        lk.host_write_report(bytes(data))
        return len(data)

    def Read(self, size: int, timeout_ms: int = 0):  # noqa: N802
        lk = self._link
        lk.tick_io()
        deadline = CLOCK.now_us + int(timeout_ms) * 1000
        q = lk.rxq
        q.sort(key=lambda it: it[0])
        if q and q[0][0] <= deadline:
            it = q.pop(0)
            CLOCK.now_us = max(CLOCK.now_us, it[0])
            lk.log.add("R", size, len(it[1]))
            return bytes(it[1][:size]), len(it[1][:size])
        CLOCK.now_us = deadline
        lk.log.add("R", size, 0)
        return b"", -1


class SimUsbSio:
    """Stands in for libusbsio.usbsio(): only what UsbDevice.__init__ needs."""

    link: Link = None

    def __init__(self, *a, **kw) -> None:
        pass

    def HIDAPI_DeviceCreate(self):  # noqa: N802
        return SimHid(SimUsbSio.link)

    def HIDAPI_Enumerate(self, *a, **kw):  # noqa: N802
        return []
