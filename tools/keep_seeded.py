#!/venv/bin/python
"""usage: tools/keep_seeded.py <src dir> <seeded id> <property> <caught: yes|no|after-strengthening> <oracle/site or note> [extra note]
Copies patch.diff, the demonstration and README.md of a confirmed seeded change into /verif/seeded/<id>/ and writes meta.json."""
import json
import os
import shutil
import sys

src, sid, prop, caught, how = sys.argv[1:6]
note = sys.argv[6] if len(sys.argv) > 6 else ""
dst = os.path.join(os.path.dirname(os.path.dirname(os.path.abspath(__file__))), "seeded", sid)
os.makedirs(dst, exist_ok=True)
for f in os.listdir(src):
    if f in ("patch.diff", "README.md") or f.startswith("demo"):
        shutil.copy(os.path.join(src, f), os.path.join(dst, f))
readme = open(os.path.join(src, "README.md")).read() if os.path.exists(os.path.join(src, "README.md")) else ""
needs = ""
for para in readme.split("\n\n"):
    if "manifest" in para.lower():
        needs = " ".join(para.split())
        break
meta = {
    "id": sid,
    "property": prop,
    "origin": "fresh sub-agent given only the property text and a scratch worktree (nothing from /verif)",
    "what": " ".join(readme.split("\n\n")[1].split())[:600] if readme.count("\n\n") else "",
    "needs_to_manifest": needs[:900],
    "confirmed": "tools/confirm_seeded.sh: demonstration passes on the unchanged tree, fails with the patch; the relevant existing tests pass with the patch",
    "check": f"tools/run_seeded.sh {prop} seeded/{sid}/patch.diff",
    "caught": caught,
    "caught_by": how,
    "note": note,
}
json.dump(meta, open(os.path.join(dst, "meta.json"), "w"), indent=1)
print("kept", dst)
