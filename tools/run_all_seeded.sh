#!/bin/bash
# usage: tools/run_all_seeded.sh [property ...]   - regression over every kept seeded change: each must be caught (exit 1 of the
# quick check of its property on a scratch worktree with the patch applied). Prints one line per change and a summary.
set -u
HERE=$(cd "$(dirname "$0")/.." && pwd); cd "$HERE"
PROPS=${*:-C18 C10 C17 C11 C05 C04}
MISS=0; N=0
for P in $PROPS; do
  for d in $(ls -d seeded/$P-* | sort -t- -k2 -n); do
    if grep -q '"superseded"' "$d/meta.json" 2>/dev/null; then echo "$(basename "$d"): skipped (superseded by a later fix, see meta.json)"; continue; fi
    N=$((N+1))
    OUT=$(timeout 2400 tools/run_seeded.sh "$P" "$d/patch.diff" 2>&1); RC=$?
    V=$(echo "$OUT" | grep -E "^SEEDED-CHANGE" | tail -1)
    S=$(echo "$OUT" | grep -E "^  oracle=" | head -1 | cut -c1-140)
    echo "$(basename "$d"): $V $S"
    [ $RC -eq 0 ] || MISS=$((MISS+1))
  done
done
echo "SEEDED-REGRESSION: $N changes, $MISS missed"
[ $MISS -eq 0 ]
