#!/bin/bash
# usage: tools/confirm_seeded.sh <dir with patch.diff + demo.py> <pytest targets...>
# Confirms a seeded change in a scratch worktree: demo passes without the patch, fails with it, tests pass with it.
set -u
DIR=$(readlink -f "$1"); shift
WT=$(mktemp -d "${TMPDIR:-/tmp}/verif-confirm-XXXXXX")
git -C /repo worktree add -q --detach "$WT" HEAD || exit 3
trap 'git -C /repo worktree remove --force "$WT" >/dev/null 2>&1; rm -rf "$WT"' EXIT
[ -f /repo/spsdk/__version__.py ] && cp /repo/spsdk/__version__.py "$WT/spsdk/__version__.py"
DEMO=$DIR/demo.py; [ -f "$DEMO" ] || DEMO=$DIR/demo.sh
rundemo() { (cd "$WT" && if [[ $DEMO == *.py ]]; then PYTHONPATH="$WT" timeout 600 /venv/bin/python "$DEMO" "$WT"; else PYTHONPATH="$WT" timeout 600 bash "$DEMO" "$WT"; fi) >"$WT/.demo.out" 2>&1; echo $?; }
A=$(rundemo); echo "demo without patch: rc=$A ($(tail -1 "$WT/.demo.out" | cut -c1-100))"
git -C "$WT" apply "$DIR/patch.diff" || { echo "PATCH-DOES-NOT-APPLY"; exit 3; }
B=$(rundemo); echo "demo with patch:    rc=$B ($(tail -1 "$WT/.demo.out" | cut -c1-100))"
if [ $# -gt 0 ]; then
  T=$(cd "$WT" && timeout 3000 /venv/bin/python -m pytest -q -p no:cacheprovider --continue-on-collection-errors "$@" 2>&1 | tail -1); echo "tests with patch: $T"
fi
[ "$A" = 0 ] && [ "$B" != 0 ] && echo CONFIRMED || echo NOT-CONFIRMED
