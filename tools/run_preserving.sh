#!/bin/bash
# usage: tools/run_preserving.sh [patch ...]   (default: all of selftest/preserving/*.patch)
# Property-preserving refactorings must stay silent: each patch is applied in a scratch worktree and the quick
# check of its property (name prefix) must exit 0.
set -u
HERE=$(cd "$(dirname "$0")/.." && pwd); cd "$HERE"
[ $# -gt 0 ] || set -- selftest/preserving/*.patch
BAD=0
for P in "$@"; do
  PROP=$(basename "$P" | cut -d- -f1)
  WT=$(mktemp -d "${TMPDIR:-/tmp}/verif-pres-XXXXXX")
  git -C /repo worktree add -q --detach "$WT" HEAD
  [ -f /repo/spsdk/__version__.py ] && cp /repo/spsdk/__version__.py "$WT/spsdk/__version__.py"
  if git -C "$WT" apply "$(readlink -f "$P")"; then
    OUT=$(VERIF_REPO="$WT" timeout 1500 ./check "$PROP" --no-evidence 2>&1); RC=$?
    echo "$(basename "$P"): rc=$RC $(echo "$OUT" | grep -E "^C[0-9]+: runs" | cut -c1-120)"
    [ $RC -eq 0 ] || { BAD=1; echo "$OUT" | grep -E "VIOLATION|oracle=|HARNESS" | head -5 | cut -c1-300; }
    echo "$OUT" | sed -n 's/^VIOLATION property=[A-Z0-9]* replay=//p' | while read -r f; do rm -f "$f"; done
  else echo "$(basename "$P"): PATCH-DOES-NOT-APPLY"; BAD=1; fi
  git -C /repo worktree remove --force "$WT" >/dev/null 2>&1; rm -rf "$WT"
done
exit $BAD
