#!/bin/bash
# usage: tools/selftest_determinism.sh <property id> [scale]
# Same VERIF_SEED executed in fresh interpreters at two worker counts (digests must be identical) and under a
# different PYTHONHASHSEED (verdicts must be identical).  Exit 0 = deterministic on this sample.
set -u
PROP=$1; SCALE=${2:-0.3}
HERE=$(cd "$(dirname "$0")/.." && pwd); cd "$HERE"
D=$(mktemp -d "${TMPDIR:-/tmp}/verif-det-XXXXXX"); trap 'rm -rf "$D"' EXIT
run() { env VERIF_HASHSEED=$1 VERIF_SEED=${VERIF_SEED:-0} timeout 3000 ./check "$PROP" --no-evidence --scale "$SCALE" --workers "$2" --digests "$3" >/dev/null 2>&1; echo "  run hashseed=$1 workers=$2 rc=$?"; }
run 0 16 "$D/a"; run 0 5 "$D/b"; run 12345 16 "$D/c"
N=$(wc -l < "$D/a")
if ! cmp -s "$D/a" "$D/b"; then echo "NONDETERMINISTIC: digests differ between worker counts"; diff "$D/a" "$D/b" | head -5; exit 2; fi
# columns: family index digest verdict-classes ; verdicts must not depend on the hash seed
if ! diff <(awk '{print $1,$2,$4}' "$D/a") <(awk '{print $1,$2,$4}' "$D/c") >/dev/null; then echo "VERDICT DEPENDS ON HASH SEED"; exit 2; fi
SAME=$(diff <(awk '{print $3}' "$D/a") <(awk '{print $3}' "$D/c") | grep -c '^<')
echo "deterministic: $N runs, digests identical across worker counts; verdicts identical across hash seeds; $SAME digests differ across hash seeds"
