#!/bin/bash
# usage: tools/process_round.sh <property> <out dir with mutN/> <pytest targets...>
# For every mutN: confirm (demo both ways + tests) and run the quick check against it.
PROP=$1; OUT=$2; shift 2
HERE=$(cd "$(dirname "$0")/.." && pwd); cd "$HERE"
for d in "$OUT"/mut*; do
  [ -f "$d/patch.diff" ] || continue
  echo "=== $PROP $(basename "$d")"
  tools/confirm_seeded.sh "$d" "$@" 2>&1 | tail -4
  timeout 1800 tools/run_seeded.sh "$PROP" "$d/patch.diff" 2>&1 | grep -v KNOWN-FINDING | tail -4 | cut -c1-330
done
