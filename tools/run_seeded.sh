#!/bin/bash
# usage: tools/run_seeded.sh <property id> <patch.diff> [extra check args...]
# Applies the patch to a scratch worktree of /repo (outside /repo and /verif), runs the quick check of the
# property against it (VERIF_REPO), prints the verdict, removes the worktree.  Exit 0 = the change was caught.
set -u
PROP=$1; PATCH=$(readlink -f "$2"); shift 2
HERE=$(cd "$(dirname "$0")/.." && pwd)
TMPBASE=${TMPDIR:-/tmp}
WT=$(mktemp -d "$TMPBASE/verif-seeded-XXXXXX")
git -C /repo worktree add -q --detach "$WT" HEAD || exit 3
cleanup() { git -C /repo worktree remove --force "$WT" >/dev/null 2>&1; rm -rf "$WT"; }
trap cleanup EXIT
# untracked generated files that are part of /repo's working tree state
[ -f /repo/spsdk/__version__.py ] && cp /repo/spsdk/__version__.py "$WT/spsdk/__version__.py"
if ! git -C "$WT" apply "$PATCH"; then echo "PATCH-DOES-NOT-APPLY"; exit 3; fi
OUT=$(cd "$HERE" && VERIF_REPO="$WT" timeout 1500 ./check "$PROP" --no-evidence "$@" 2>&1)
RC=$?
echo "$OUT" | grep -E "^VIOLATION|^  oracle=|^KNOWN-FINDING|HARNESS-ERROR|^C[0-9]+: runs" | cut -c1-400
# replay files written for a seeded change are not evidence about /repo: remove them
echo "$OUT" | sed -n 's/^VIOLATION property=[A-Z0-9]* replay=//p' | while read -r f; do rm -f "$f"; done
if [ $RC -eq 1 ]; then echo "SEEDED-CHANGE-CAUGHT rc=1"; exit 0; fi
echo "SEEDED-CHANGE-MISSED rc=$RC"; exit 1
