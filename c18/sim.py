"""C18 — database cache under crash points and concurrent starts (worker / scheduler side).

This module never imports spsdk: simulated SPSDK processes are real processes forked from zygotes
(c18.child) and parked at every cache-folder system call; the scheduler here decides who runs next,
who is killed where, and how many bytes of a cache write reach the disk.
"""
from __future__ import annotations

import copy
import json
import os
import random
import re
import shutil
import socket
import tempfile

from simkit.core import EventLog, HarnessError, REPO, canon, ddmin_lists, digest

PROP = "C18"
LEVEL = "fault_enumeration"
BUDGET_S = {"quick": 420, "thorough": 3600}
CHUNK = 4
RULE = (
    "each run = one plan drawn from one integer: data profile, phases of 1..16 real forked SPSDK processes with "
    "seeded workloads, an explicit schedule choice list, kill points / torn-write lengths, synthetic cache damage "
    "(missing, empty, prefix), data staleness, then a heal phase; sweep runs enumerate prefix lengths of both cache "
    "files. A run is non-trivial if it injected >=1 fault or interleaved >=2 processes; distinct = distinct "
    "(schedule signature, fault signature, workload-shape signature) triples, counted with a set."
)
COMPONENTS = {
    "real": [
        "spsdk.utils.database (DatabaseManager, Database.DatabaseData, QuickDatabase)",
        "pickle (C implementation)",
        "filelock (lock logic + kernel flock)",
        "shutil.rmtree (path based variant)",
        "the file system",
        "process death (real kill of real processes)",
    ],
    "stub": [
        "scheduler (who runs next at each cache-folder system call)",
        "clock (time.* in the simulated processes)",
        "write buffer wrapper that lets a torn length be chosen for a cache file opened for writing",
    ],
}
MEASURES = {
    "distinct_schedules": "distinct sequences of (process, seam, file) taken at scheduler steps where more than one process was runnable",
    "distinct_states": "distinct abstract states after a scheduler step: (state class of each cache file: missing / empty / full / other) x (flavour and parked seam of every live process); at most 3000 recorded per run",
    "sim_time_s": "simulated time: 1 ms per scheduler step plus lock-poll sleeps; the clock jumps when nothing is runnable",
}
ASSUMPTIONS = [
    "pre-emption and crash points are the cache-folder system calls of each process (nothing else of a process is visible to another)",
    "reference answers come from a process of the same tree that read no cache file (private empty cache folder), so only cache-induced differences are flagged",
    "a process may be left unscheduled for 11-25 simulated seconds at any yield point (longer than filelock's 10 s time-out of its peers); its peers must still start and answer correctly",
    "data files change only between phases, with a strictly larger mtime (half of the edits keep the file size)",
]

MTIME_NS = 1_700_000_000_000_000_000

PROFILES = {
    "tiny": ["lpc5506", "lpc5502", "mcxa153"],
    "small": ["lpc5506", "lpc5502", "lpc55s36", "mcxn947", "k32w148", "kw45b41z8", "mimxrt1189", "lpc55s69"],
    "full": None,
    # the tiny data folder plus a restricted-data folder (an extra device, its own defaults, one overriding schema)
    # and an add-ons folder (an overlay for one device); processes of this profile import SPSDK themselves
    "rd": ["lpc5506", "lpc5502", "mcxa153"],
}
RD_PROFILES = ("rd",)

HEAL_WORKLOAD = [["quick", 0], ["cfg", 0], ["quick", 1], ["cfg", 1], ["dev", 0]]
MAX_STEPS = 60000  # harness safety net only (a run that needs more is a harness error, not a verdict)
PHASE_TIME_BOUND_US = 90_000_000  # liveness: simulated time a phase may take beyond the stalls and pauses injected into it

# ----------------------------------------------------------------------------------------------
# worker-level state


class _W:
    root = None
    scratch = None
    zyg = {}  # flavour -> (pid, sock)
    slot_fd = None
    profile = None
    refs = {}  # data state key -> (keys_by_cat, answers)
    next_id = 0


def worker_init() -> None:
    if _W.scratch:
        return
    base = os.environ.get("VERIF_TMP") or tempfile.gettempdir()
    # the scratch folder's path ends up inside the cache files (absolute paths, fingerprints): a name from a small fixed
    # set - the first slot nobody holds - keeps it the same from one fresh run to the next, whatever the process id is
    import fcntl

    _W.root = None
    for slot in range(256):
        lock_path = os.path.join(base, "verif-c18-slot%03d.lock" % slot)
        fd = os.open(lock_path, os.O_RDWR | os.O_CREAT, 0o600)
        try:
            fcntl.flock(fd, fcntl.LOCK_EX | fcntl.LOCK_NB)
        except OSError:
            os.close(fd)
            continue
        _W.slot_fd = fd  # held until the process ends
        _W.root = os.path.join(base, "verif-c18-slot%03d" % slot)
        break
    if _W.root is None:
        raise HarnessError("no free scratch slot")
    shutil.rmtree(_W.root, ignore_errors=True)
    os.makedirs(_W.root)
    _W.scratch = _W.root
    os.makedirs(os.path.join(_W.root, "cache"))
    # zygotes are forked now, while this worker holds no pipe to any simulated process
    _zygote("normal")
    _zygote("nocache")
    _zygote("bare")
    import multiprocessing.util as mpu

    mpu.Finalize(None, worker_exit, exitpriority=10)
    import atexit

    atexit.register(worker_exit)


def worker_exit() -> None:
    for fl, (pid, sock) in list(_W.zyg.items()):
        try:
            sock.sendall(b'{"op":"quit"}')
            sock.close()
        except OSError:
            pass
        try:
            os.waitpid(pid, 0)
        except OSError:
            pass
    _W.zyg = {}
    if _W.root:
        shutil.rmtree(_W.root, ignore_errors=True)
    _W.scratch = None
    _W.profile = None
    _W.refs = {}


def _zygote(flavour: str):
    if flavour not in _W.zyg:
        from c18 import child

        env = {
            "SPSDK_CACHE_FOLDER": os.path.join(_W.scratch, "cache"),
            "SPSDK_DATA_FOLDER": os.path.join(_W.scratch, "data"),
            "SPSDK_DEBUG_LOGGING_DISABLED": "1",
        }
        if flavour == "nocache":
            env["SPSDK_CACHE_DISABLED"] = "1"
        _W.zyg[flavour] = child.start_zygote(env, bare=flavour == "bare")
    return _W.zyg[flavour]


def _zy_call(flavour: str, msg: dict, fds=()):
    _pid, sock = _zygote(flavour)
    data = json.dumps(msg).encode()
    if fds:
        socket.send_fds(sock, [data], list(fds))
    else:
        sock.sendall(data)
    buf = b""
    while not buf.endswith(b"\n"):
        c = sock.recv(65536)
        if not c:
            raise HarnessError(f"zygote {flavour} died")
        buf += c
    return json.loads(buf)


# ----------------------------------------------------------------------------------------------
# data folder


def _src_data() -> str:
    return os.path.join(REPO, "spsdk", "data")


def _alias_closure(devs: list[str]) -> list[str]:
    out = list(devs)
    for d in out:
        p = os.path.join(_src_data(), "devices", d, "database.yaml")
        with open(p) as f:
            m = re.search(r"^alias:\s*(\S+)", f.read(), re.M)
        if m and m.group(1) not in out:
            out.append(m.group(1))
    return out


def _set_mtimes(root: str) -> None:
    for dp, dn, fn in os.walk(root):
        for n in fn + dn:
            os.utime(os.path.join(dp, n), ns=(MTIME_NS, MTIME_NS))


def prepare_data(profile: str) -> None:
    data = os.path.join(_W.scratch, "data")
    if _W.profile == profile:
        return
    if os.path.islink(data):
        os.unlink(data)
    else:
        shutil.rmtree(data, ignore_errors=True)
    _W.refs = {k: v for k, v in _W.refs.items() if k[0] == profile}
    src = _src_data()
    if PROFILES[profile] is None:
        os.symlink(src, data)
    else:
        os.makedirs(os.path.join(data, "devices"))
        shutil.copytree(os.path.join(src, "common"), os.path.join(data, "common"))
        shutil.copytree(os.path.join(src, "jsonschemas"), os.path.join(data, "jsonschemas"))
        for d in _alias_closure(PROFILES[profile]):
            os.makedirs(os.path.join(data, "devices", d))
            shutil.copy(os.path.join(src, "devices", d, "database.yaml"), os.path.join(data, "devices", d, "database.yaml"))
        _set_mtimes(data)
    for extra in ("restricted", "addons"):
        shutil.rmtree(os.path.join(_W.scratch, extra), ignore_errors=True)
    if profile in RD_PROFILES:
        _build_restricted_and_addons(src)
    _W.profile = profile


def _spsdk_major_minor() -> str:
    with open(os.path.join(REPO, "spsdk", "__version__.py")) as f:
        m = re.search(r"version = '(\d+)\.(\d+)", f.read())
    if not m:
        raise HarnessError("cannot read the SPSDK version (spsdk/__version__.py)")
    return f"{m.group(1)}.{m.group(2)}"


def _build_restricted_and_addons(src: str) -> None:
    rd = os.path.join(_W.scratch, "restricted")
    os.makedirs(os.path.join(rd, "data", "devices", "rdev1"))
    os.makedirs(os.path.join(rd, "data", "common"))
    os.makedirs(os.path.join(rd, "data", "jsonschemas"))
    with open(os.path.join(rd, "metadata.yaml"), "w") as f:
        f.write(f'version: "{_spsdk_major_minor()}"\n')
    with open(os.path.join(src, "devices", "lpc5506", "database.yaml")) as f:
        dev = f.read()
    with open(os.path.join(rd, "data", "devices", "rdev1", "database.yaml"), "w") as f:
        f.write(re.sub(r"^  purpose: .*$", "  purpose: Restricted Series", dev, count=1, flags=re.M))
    with open(os.path.join(src, "common", "database_defaults.yaml")) as f:
        dfl = f.read()
    with open(os.path.join(rd, "data", "common", "database_defaults.yaml"), "w") as f:
        f.write(re.sub(r"^    size: 0x1000\s*$", "    size: 0x3000", dfl, count=1, flags=re.M))
    with open(os.path.join(src, "jsonschemas", "sch_tz.yaml")) as f:
        sch = f.read()
    with open(os.path.join(rd, "data", "jsonschemas", "sch_tz.yaml"), "w") as f:
        f.write(re.sub(r"title: .*$", "title: Restricted title", sch, count=1, flags=re.M))
    ad = os.path.join(_W.scratch, "addons")
    os.makedirs(os.path.join(ad, "devices", "lpc5506"))
    m = re.search(r"^info:\n(?:[ \t#].*\n|\n)*", dev, flags=re.M)
    if not m:
        raise HarnessError("no info block in lpc5506/database.yaml")
    with open(os.path.join(ad, "devices", "lpc5506", "database.yaml"), "w") as f:
        f.write(re.sub(r"^  purpose: .*$", "  purpose: Addon Series", m.group(0), count=1, flags=re.M))
    _set_mtimes(rd)
    _set_mtimes(ad)


def rd_env() -> dict:
    return {"SPSDK_RESTRICTED_DATA_FOLDER": os.path.join(_W.scratch, "restricted"), "SPSDK_ADDONS_DATA_FOLDER": os.path.join(_W.scratch, "addons")}


# battery keys whose answers depend on each stale target (used to aim workloads at the modified file)
STALE_KEYS = {
    "device": ["dev:lpc5506", "qinfo:lpc5506", "qgroups"],
    "defaults": ["devfeat:lpc5506/latest", "defaults:comm_buffer", "dev:lpc5506"],
    "schema": ["sch:tz"],
    "schema2": ["sch:general"],
    "schema_deleted": ["sch:tz"],
    "device_removed": ["qdevs", "qgroups", "qwith:mbi", "qname:lpc5502"],
    "rd_device": ["dev:rdev1", "qinfo:rdev1", "qgroups"],
    "rd_defaults": ["devfeat:lpc5506/latest", "defaults:comm_buffer", "dev:lpc5506"],
    "rd_schema": ["sch:tz"],
    "rd_schema_deleted": ["sch:tz"],
    "addon_device": ["dev:lpc5506", "qinfo:lpc5506", "qgroups"],
}
RD_STALE = ["rd_device", "rd_defaults", "rd_schema", "rd_schema_deleted", "addon_device", "device", "defaults", "schema2"]
AUDIT_WORKLOAD = [["key", k] for ks in STALE_KEYS.values() for k in ks] + [["cfg", 0], ["cfg", 1], ["cfg", 2], ["quick", 0], ["quick", 5], ["dev", 3]]

STALE_TARGETS = {
    "device": ("devices/lpc5506/database.yaml", r"^  purpose: .*$", "  purpose: Stale Series %d"),
    "defaults": ("common/database_defaults.yaml", r"^    size: 0x1000\s*$", "    size: 0x%d000"),
    "schema": ("jsonschemas/sch_tz.yaml", r"title: .*$", "title: Stale title %d"),
    "schema2": ("jsonschemas/sch_general.yaml", r"title: .*$", "title: Stale title %d"),
    # a cached data file that is gone (editable install after switching branches, a restricted-data folder that was
    # unmounted): with the cache disabled the query fails, so it must fail with the cache too
    "schema_deleted": ("jsonschemas/sch_tz.yaml", None, None),
    "device_removed": ("devices/lpc5502/database.yaml", None, None),  # the database shrinks: its caches become shorter
    # (paths are relative to the standard data folder)
    "rd_device": ("../restricted/data/devices/rdev1/database.yaml", r"^  purpose: .*$", "  purpose: Stale Series %d"),
    "rd_defaults": ("../restricted/data/common/database_defaults.yaml", r"^    size: 0x3000\s*$", "    size: 0x%d000"),
    "rd_schema": ("../restricted/data/jsonschemas/sch_tz.yaml", r"title: .*$", "title: Stale title %d"),
    "rd_schema_deleted": ("../restricted/data/jsonschemas/sch_tz.yaml", None, None),
    "addon_device": ("../addons/devices/lpc5506/database.yaml", r"^  purpose: .*$", "  purpose: Stale Series %d"),
}


class DataState:
    """Tracks modifications of the private data folder so that they can be undone after the run."""

    def __init__(self, profile: str) -> None:
        self.profile = profile
        self.mods: list = []
        self.orig: dict[str, bytes] = {}
        self.gen = 0

    def key(self):
        return (self.profile, tuple(self.mods))

    def stale(self, target: str, variant: int) -> bool:
        rel, pat, repl = STALE_TARGETS[target]
        path = os.path.join(_W.scratch, "data", rel)
        if PROFILES[self.profile] is None or not os.path.exists(path):
            return False
        if any(t_.endswith("_deleted") for t_, _v in self.mods):
            return False  # one deletion per run keeps the data states few
        with open(path, "rb") as f:
            cur = f.read()
        self.orig.setdefault(rel, cur)
        self.gen += 1
        if pat is None:
            os.remove(path)
            if os.path.basename(path) == "database.yaml":
                try:
                    os.rmdir(os.path.dirname(path))  # the whole device goes
                except OSError:
                    pass
            self.mods.append((target, 0))
            return True
        same_size = variant >= 3  # variants 3..5: an in-place edit that keeps the file size (only the mtime tells)

        def sub(mo):
            text = (repl % ((variant % 3) + 2 + (7 if same_size else 0))).encode()
            if same_size:
                old_line = mo.group(0)
                text = text[: len(old_line)].ljust(len(old_line), b"x") if len(text) != len(old_line) else text
                if text == old_line:
                    text = old_line[:-1] + (b"y" if old_line[-1:] != b"y" else b"z")
            return text

        new, n = re.subn(pat.encode(), sub, cur, count=1, flags=re.M)
        if n == 0 or new == cur or (len(new) == len(cur) and not same_size):
            new = cur + b"\n# stale %d\n" % self.gen
        with open(path, "wb") as f:
            f.write(new)
        # half of the edits land within the same second as the recorded time stamp (only the nanoseconds tell)
        t = MTIME_NS + self.gen * (1_000_003 if variant % 2 else 1_000_000_000)
        os.utime(path, ns=(t, t))
        self.mods.append((target, variant))
        return True

    def restore(self) -> None:
        for rel, content in self.orig.items():
            path = os.path.join(_W.scratch, "data", rel)
            os.makedirs(os.path.dirname(path), exist_ok=True)
            with open(path, "wb") as f:
                f.write(content)
            os.utime(path, ns=(MTIME_NS, MTIME_NS))
        self.orig = {}
        self.mods = []


# ----------------------------------------------------------------------------------------------
# simulated processes


class Proc:
    def __init__(self, idx: int, spec: dict) -> None:
        self.idx = idx
        self.spec = spec
        self.flavour = spec.get("flavour", "normal")
        self.fresh = bool(spec.get("fresh_import"))
        self.paused: set = set()
        self.seam_seen: dict = {}
        self.counted_yield = -1
        self.zyg = "bare" if self.fresh else self.flavour  # which zygote forks it
        self.cid = None
        self.rfd = self.wfd = None
        self.buf = b""
        self.pending = None
        self.wake = 0
        self.finished = False
        self.killed = False
        self.nyield = 0
        self.ncommit = 0
        self.result = None
        self.locks: set = set()

    def send(self, obj) -> None:
        data = (json.dumps(obj, separators=(",", ":")) + "\n").encode()
        try:
            while data:
                n = os.write(self.wfd, data)
                data = data[n:]
        except BrokenPipeError:
            pass

    def recv(self):
        while b"\n" not in self.buf:
            chunk = os.read(self.rfd, 1 << 20)
            if not chunk:
                return None
            self.buf += chunk
        line, self.buf = self.buf.split(b"\n", 1)
        return json.loads(line)

    def close(self) -> None:
        for fd in (self.rfd, self.wfd):
            if fd is not None:
                try:
                    os.close(fd)
                except OSError:
                    pass
        self.rfd = self.wfd = None


class Run:
    def __init__(self, plan: dict) -> None:
        self.plan = plan
        self.log = EventLog()
        self.records: list = []
        self.now = 0
        self.steps = 0
        self.faults: dict = {}
        self.probes: dict = {}
        self.states: set = set()
        self.sched_sig: list = []
        self.cache = os.path.join(_W.scratch, "cache")
        self.ds = DataState(plan["profile"])
        self.ref = None
        self.last_full: dict = {}
        self.nprocs = 0
        self.trace: list = []

    # -- bookkeeping
    def fault(self, kind: str, n: int = 1) -> None:
        self.faults[kind] = self.faults.get(kind, 0) + n

    def probe(self, name: str, n: int = 1) -> None:
        self.probes[name] = self.probes.get(name, 0) + n

    def violation(self, oracle: str, site: str, msg: str, detail=None) -> None:
        self.records.append({"oracle": oracle, "site": site, "msg": msg, "detail": detail})
        self.log.add("violation", oracle, site)

    # -- cache folder helpers
    def wipe_cache(self) -> None:
        shutil.rmtree(self.cache, ignore_errors=True)
        os.makedirs(self.cache, exist_ok=True)

    def cache_file(self, which: str):
        pref = {"quick": "db_quick_info_", "data": "db_data_"}[which]
        if not os.path.isdir(self.cache):
            return None
        c = sorted(f for f in os.listdir(self.cache) if f.startswith(pref) and f.endswith(".cache"))
        return os.path.join(self.cache, c[0]) if c else None

    def file_class(self, which: str) -> str:
        p = self.cache_file(which)
        if p is None:
            return "missing"
        try:
            n = os.stat(p).st_size
        except OSError:
            return "missing"
        if n == 0:
            return "empty"
        return "full" if n == self.last_full.get(which) else "other"

    # -- reference
    def reference(self):
        key = self.ds.key()
        if key not in _W.refs:
            keep = self.cache + ".keep"
            os.makedirs(self.cache, exist_ok=True)  # a cache-disabled process may have removed the whole folder
            shutil.rmtree(keep, ignore_errors=True)
            os.rename(self.cache, keep)
            os.makedirs(self.cache)
            saved = (self.log, self.now, self.steps, self.nprocs, dict(self.probes))
            self.log = EventLog(keep=0)  # the reference computation is memoised: it must leave no trace in the run
            try:
                p = self.spawn(0, {"flavour": "normal", "workload": "ALL"})
                res = self.run_alone(p)
            finally:
                shutil.rmtree(self.cache, ignore_errors=True)
                os.rename(keep, self.cache)
                self.log, self.now, self.steps, self.nprocs, self.probes = saved
            if res is None or res.get("exc") or res.get("harness"):
                raise HarnessError(f"reference process failed: {res}")
            answers = res["answers"]
            by_cat: dict = {"quick": [], "dev": [], "cfg": []}
            for k in answers:
                kind = k.split(":")[0]
                cat = "quick" if kind.startswith("q") else ("cfg" if kind in ("sch", "cfg", "schmut") else "dev")
                by_cat[cat].append(k)
            _W.refs[key] = (by_cat, answers)
        self.ref = _W.refs[key]
        return self.ref

    def resolve(self, workload) -> list[str]:
        by_cat, _ = self.ref
        out = []
        for cat, i in workload:
            if cat == "key":
                if i in self.ref[1]:
                    out.append(i)
                continue
            lst = by_cat[cat]
            out.append(lst[i % len(lst)])
        return out or [by_cat["quick"][0]]

    # -- process control
    def spawn(self, idx: int, spec: dict) -> Proc:
        spec = dict(spec)  # run-time marks (e.g. "_stalled") never leak into the plan
        rd = self.plan["profile"] in RD_PROFILES
        if rd:
            spec["fresh_import"] = True  # the folders are named by environment variables read at import
        p = Proc(idx, spec)
        c2p_r, c2p_w = os.pipe()
        p2c_r, p2c_w = os.pipe()
        _W.next_id += 1
        p.cid = _W.next_id
        wl = spec["workload"]
        if wl != "ALL":
            wl = self.resolve(wl)
        msg = {"op": "spawn", "id": p.cid, "spec": {"cache_root": self.cache, "workload": wl}}
        if p.fresh:
            msg["spec"]["fresh_import"] = True
            msg["spec"]["env"] = {"SPSDK_CACHE_DISABLED": "1"} if p.flavour == "nocache" else {}
            if rd:
                msg["spec"]["env"].update(rd_env())
                self.probe("process_with_restricted_and_addons_data")
            self.probe("process_imports_spsdk_itself")
        _zy_call(p.zyg, msg, fds=(p2c_r, c2p_w))
        os.close(p2c_r)
        os.close(c2p_w)
        p.rfd, p.wfd = c2p_r, p2c_w
        first = p.recv()
        if first is None or first.get("y") != "start":
            raise HarnessError(f"child did not start: {first}")
        p.pending = first
        self.nprocs += 1
        return p

    def reap(self, p: Proc) -> None:
        p.finished = True
        p.close()
        _zy_call(p.zyg, {"op": "reap", "id": p.cid})

    def advance(self, p: Proc, action: dict, holders: dict | None = None) -> None:
        """Release p with `action`; read until its next yield, completion or death."""
        p.send(action)
        while True:
            m = p.recv()
            if m is None:
                if action.get("a") not in ("tear", "die"):
                    raise HarnessError(f"simulated process {p.idx} died unexpectedly after {p.pending}")
                p.killed = True
                self.reap(p)
                return
            if "note" in m:
                self.log.add("note", p.idx, m["note"], m.get("f"))
                if m["note"] == "lock_busy":
                    self.probe("lock_contended")
                elif m["note"] == "lock_got" and holders is not None:
                    if holders.get(m["f"]):
                        self.probe("two_holders_of_one_lock")
                    holders.setdefault(m["f"], set()).add(p.idx)
                    p.locks.add(m["f"])
                continue
            if "done" in m:
                p.result = m
                self.reap(p)
                return
            p.pending = m
            if m["y"] == "sleep":
                p.wake = self.now + int(m["d"])
                self.probe("lock_poll_slept")
            if m["y"] == "unlock" and holders is not None:
                holders.get(m["f"], set()).discard(p.idx)
                p.locks.discard(m["f"])
            return

    def run_alone(self, p: Proc):
        """Run one process to completion without faults (reference, heal, sweep victims)."""
        n = 0
        while not p.finished:
            if p.pending.get("y") == "sleep":
                self.now = max(self.now, p.wake)
            self.log.add("solo", p.idx, p.pending.get("y"), p.pending.get("f"), p.pending.get("n"))
            self.advance(p, {"a": "go", "now": self.now})
            self.now += 1000
            n += 1
            self.steps += 1
            if n > 200000:
                raise HarnessError("solo process does not terminate")
        return p.result

    # -- oracles on a finished process
    def judge(self, p: Proc, where: str) -> None:
        if p.killed:
            return
        res = p.result
        if res is None:
            raise HarnessError("no result from a finished process")
        if res.get("harness"):
            raise HarnessError("child harness failure: " + res["harness"])
        if res.get("exc"):
            e = res["exc"]
            self.violation(
                "O1-never-fatal",
                e["site"],
                f"{where}: process {p.idx} ({p.flavour}) died with {e['type']}: {e['msg']} during query {e['query']}",
                detail=e["tb"],
            )
        _, ref = self.ref
        bad = [k for k, v in res["answers"].items() if ref.get(k) != v]
        if bad:
            kinds = sorted({k.split(":")[0] for k in bad})
            self.violation(
                "O2-same-answers",
                "answers:" + ",".join(kinds),
                f"{where}: process {p.idx} ({p.flavour}) answered {len(bad)} queries differently from the no-cache reference, e.g. {bad[0]}",
                detail=bad[:10],
            )

    # -- phases
    def phase_procs(self, ph: dict, pi: int) -> None:
        procs = [self.spawn(i, s) for i, s in enumerate(ph["procs"])]
        sched = ph.get("sched", [])
        rng = random.Random(ph.get("sched_seed", 0))
        holders: dict = {}
        step = 0
        self.log.add("phase", pi, "procs", len(procs))
        t_phase = self.now
        # every lock wait is bounded by filelock's 10 s time-out, a start takes a handful of them at most: a phase that
        # is not over 90 simulated seconds after the injected stalls and pauses have been served does not make progress
        allowance = PHASE_TIME_BOUND_US + sum(int((s_.get("stall") or {}).get("us", 0)) + sum(int(q["us"]) for q in s_.get("pauses") or []) for s_ in ph["procs"])
        while True:
            alive = [p for p in procs if not p.finished]
            if not alive:
                break
            runnable = [p for p in alive if p.wake <= self.now]
            if not runnable:
                self.now = min(p.wake for p in alive)
                continue
            if self.now - t_phase > allowance:
                for p in alive:
                    self.advance(p, {"a": "die"})
                self.violation("O1-never-fatal", "unbounded", f"phase {pi}: processes still running after {(self.now - t_phase) // 1_000_000} simulated seconds ({step} scheduler steps)")
                break
            if step >= MAX_STEPS:
                for p in alive:
                    self.advance(p, {"a": "die"})
                raise HarnessError(f"phase {pi}: {MAX_STEPS} scheduler steps were not enough ({(self.now - t_phase) // 1_000_000} simulated seconds)")
            c = sched[step] if step < len(sched) else rng.randrange(1 << 16)
            p = runnable[c % len(runnable)]
            y = p.pending
            p.nyield += 1
            action = {"a": "go", "now": self.now}
            crash = p.spec.get("crash") or {}
            split = p.spec.get("split") or {}
            stall = p.spec.get("stall") or {}
            if p.counted_yield != p.nyield:
                p.counted_yield = p.nyield
                p.seam_seen[y["y"]] = p.seam_seen.get(y["y"], 0) + 1
            stall_here = stall.get("at_yield") == p.nyield - 1 or ("seam" in stall and stall["seam"] == y["y"] and p.seam_seen.get(y["y"], 0) - 1 == stall.get("nth", 0))
            if stall and stall_here and not p.spec.get("_stalled"):
                # the process is not scheduled for a long (simulated) time at this point, e.g. while holding a lock:
                # longer than filelock's 10 s time-out of its peers
                p.spec["_stalled"] = True
                p.nyield -= 1
                p.wake = self.now + int(stall["us"])
                self.fault("stall_beyond_lock_timeout")
                if p.locks:
                    self.probe("stalled_while_holding_lock")
                self.log.add("stall", pi, step, p.idx, y["y"], stall["us"])
                step += 1
                self.steps += 1
                continue
            if p.counted_yield != p.nyield:
                p.counted_yield = p.nyield
                p.seam_seen[y["y"]] = p.seam_seen.get(y["y"], 0) + 1
            pause = None
            for qi_, q in enumerate(p.spec.get("pauses") or []):
                if qi_ in p.paused:
                    continue
                if ("at_yield" in q and q["at_yield"] == p.nyield - 1) or ("seam" in q and q["seam"] == y["y"] and p.seam_seen.get(y["y"], 0) - 1 == q.get("nth", 0)):
                    pause = q
                    p.paused.add(qi_)
                    break
            if pause is not None:
                # plain scheduling: the operating system leaves the process off the processor for a while at this point
                # (much shorter than any time-out); its peers go on. Pauses named by seam kind sit right before an
                # action that was decided on earlier (remove, open for writing, commit): the check-then-act windows.
                p.nyield -= 1
                p.wake = self.now + int(pause["us"])
                self.probe("descheduled_for_a_while")
                self.log.add("pause", pi, step, p.idx, y["y"], pause["us"])
                step += 1
                self.steps += 1
                continue
            if y["y"] == "commit":
                n = int(y["n"])
                if crash.get("tear_commit") == p.ncommit:
                    k = (n * crash["num"]) // crash["den"] if "num" in crash else min(crash.get("abs", 0), n - 1)
                    action = {"a": "tear", "k": k}
                    self.fault("torn_write_kill")
                    if k == 0:
                        self.probe("torn_at_0")
                elif split.get("commit") == p.ncommit:
                    action = {"a": "split", "k": (n * split["num"]) // split["den"], "now": self.now}
                    self.fault("split_write")
                else:
                    self.last_full[y["f"].split(".")[0]] = n
                p.ncommit += 1
            if crash.get("at_yield") == p.nyield - 1 and action["a"] == "go":
                action = {"a": "die"}
                self.fault("kill")
                self.probe("kill_at_" + y["y"])
                if p.locks:
                    self.probe("kill_while_holding_lock")
            # probes on the global picture
            if y["y"] == "remove":
                if any(q is not p and not q.finished and q.pending.get("y") == "remove" and q.pending.get("f") == y.get("f") for q in procs):
                    self.probe("remove_racing_remove")
            if len(runnable) > 1:
                self.sched_sig.append((p.idx, y["y"], y.get("f")))
            self.log.add("step", pi, step, p.idx, y["y"], y.get("f"), y.get("n"), action["a"], action.get("k"))
            if len(self.trace) < 400:
                self.trace.append([pi, step, p.idx, y["y"], y.get("f"), action["a"]])
            self.advance(p, action, holders)
            if p.finished:
                for s in holders.values():
                    s.discard(p.idx)
            self.now += 1000
            step += 1
            self.steps += 1
            if len(self.states) < 3000:
                st = (
                    self.file_class("quick"),
                    self.file_class("data"),
                    tuple(sorted((q.flavour, q.pending.get("y"), q.pending.get("f")) for q in procs if not q.finished)),
                )
                self.states.add(digest(st)[:12])
        for p in procs:
            self.judge(p, f"phase {pi}")

    def phase_damage(self, ph: dict, pi: int) -> None:
        path = self.cache_file(ph["file"])
        how = ph["how"]
        if path is None:
            self.log.add("damage", pi, ph["file"], how, "nofile")
            return
        with open(path, "rb") as f:
            content = f.read()
        if how == "missing":
            os.remove(path)
            self.fault("damage_missing")
        elif how == "empty":
            open(path, "wb").close()
            self.fault("damage_empty")
        else:
            n = len(content)
            k = self.cut_len(ph["cut"], content)
            with open(path, "wb") as f:
                f.write(content[:k])
            self.fault("damage_prefix")
            self.log.add("cut", k, n)
        self.log.add("damage", pi, ph["file"], how)

    @staticmethod
    def frame_boundaries(content: bytes) -> list[int]:
        """Offsets where a pickle protocol-4 FRAME ends (and the next opcode starts)."""
        out = []
        pos = 2 if content[:1] == b"\x80" else 0
        while pos + 9 <= len(content) and content[pos] == 0x95:
            ln = int.from_bytes(content[pos + 1 : pos + 9], "little")
            pos += 9 + ln
            if pos < len(content):
                out.append(pos)
        return out

    def cut_len(self, cut, content: bytes) -> int:
        n = len(content)
        if n == 0:
            return 0
        kind = cut[0]
        if kind == "abs":
            k = cut[1]
        elif kind == "frac":
            k = n * cut[1] // cut[2]
        elif kind == "end":
            k = n - cut[1]
        elif kind == "frame":
            fb = self.frame_boundaries(content)
            k = fb[cut[1] % len(fb)] if fb else 2
            self.probe("cut_at_frame_boundary")
        else:
            raise HarnessError(f"bad cut {cut}")
        k = max(0, min(k, n - 1))
        if k == 0:
            self.probe("cut_at_0")
        return k

    def phase_stale(self, ph: dict, pi: int) -> None:
        if self.ds.stale(ph["target"], ph.get("variant", 0)):
            self.fault("stale_data_" + ph["target"])
            self.reference()
        self.log.add("stale", pi, ph["target"], ph.get("variant", 0))

    def phase_tearsweep(self, ph: dict, pi: int) -> None:
        """The real writer is killed at byte k of its rewrite of an outdated cache, for enumerated k: whatever the writer
        leaves behind (a prefix with the shipped code; something else if the way of writing changes) must heal."""
        wl = ph.get("workload", HEAL_WORKLOAD)
        self.log.add("phase", pi, "tearsweep", ph["file"])
        self.solo(wl, "tear sweep warm-up")
        self.solo(wl, "tear sweep warm-up 2")
        snap = {}
        for which in ("quick", "data"):
            pth = self.cache_file(which)
            if pth is None:
                raise HarnessError(f"warm-up left no {which} cache file")
            with open(pth, "rb") as f:
                snap[which] = (pth, f.read())
        if self.ds.stale(ph["target"], ph.get("variant", 0)):
            self.fault("stale_data_" + ph["target"])
            self.reference()
        commit_index = 0 if ph["file"] == "quick" else 1
        n_old = len(snap[ph["file"]][1])
        cuts = list(range(ph["from"], min(ph["to"], n_old + 64), ph.get("stride", 1)))
        for k in cuts:
            for which in ("quick", "data"):
                pth, cont = snap[which]
                with open(pth, "wb") as f:
                    f.write(cont)
            self.log.add("tear_at", ph["file"], k)
            nrec = len(self.records)
            sub = {"kind": "procs", "procs": [{"flavour": "normal", "workload": wl, "crash": {"tear_commit": commit_index, "abs": k}}], "sched": [], "sched_seed": 0}
            self.phase_procs(sub, pi)
            self.solo(wl, f"tear sweep {ph['file']} rewrite killed at byte {k}, second start")
            p3 = self.solo(wl, f"tear sweep {ph['file']} rewrite killed at byte {k}, third start")
            p4 = self.solo(wl, f"tear sweep {ph['file']} rewrite killed at byte {k}, fourth start")
            self.check_healed(p4, f"tear sweep {ph['file']} killed at {k}")
            if len(self.records) > nrec + 40:
                break
        self.sweep_cuts = getattr(self, "sweep_cuts", 0) + len(cuts)

    def solo(self, workload, where: str, flavour="normal") -> Proc:
        p = self.spawn(0, {"flavour": flavour, "workload": workload})
        self.run_alone(p)
        self.judge(p, where)
        return p

    def phase_heal(self, ph: dict, pi: int) -> None:
        self.log.add("phase", pi, "heal")
        wl = ph.get("workload", HEAL_WORKLOAD)
        self.solo(wl, f"heal phase {pi}, first clean start")
        self.solo(wl, f"heal phase {pi}, second clean start")
        p3 = self.solo(wl, f"heal phase {pi}, third clean start")
        self.check_healed(p3, f"heal phase {pi}")
        # audit: a last process asks for everything a stale phase may have touched, through whatever the cache now holds
        self.solo(ph.get("audit", AUDIT_WORKLOAD), f"heal phase {pi}, audit of the healed cache")

    def check_healed(self, p3: Proc, where: str) -> None:
        if p3.result is None or p3.result.get("exc"):
            return
        st = p3.result["stats"]
        for which in ("quick", "data"):
            cls = self.file_class(which)
            if cls in ("missing", "empty"):
                self.violation("O4-replaced", f"cache-{which}-{cls}", f"{where}: after two clean starts the {which} cache file is {cls}")
        if st["open_w"] or st["remove"] or st["commit"]:
            self.violation(
                "O4-replaced",
                "third-start-still-writes",
                f"{where}: a third identical clean start still rewrote/removed cache files (open_w={st['open_w']} remove={st['remove']}): the cache was not replaced by a trusted one",
            )

    def phase_sweep(self, ph: dict, pi: int) -> None:
        """Enumerate prefix lengths of one cache file; each length: victim, healer, verifier."""
        wl = ph.get("workload", HEAL_WORKLOAD)
        self.log.add("phase", pi, "sweep", ph["file"])
        self.solo(wl, "sweep warm-up")
        self.solo(wl, "sweep warm-up 2")
        snap = {}
        for which in ("quick", "data"):
            p = self.cache_file(which)
            if p is None:
                raise HarnessError(f"warm-up left no {which} cache file")
            with open(p, "rb") as f:
                snap[which] = (p, f.read())
            self.last_full[which] = len(snap[which][1])
        path, content = snap[ph["file"]]
        n = len(content)
        cuts = list(range(ph["from"], min(ph["to"], n), ph.get("stride", 1)))
        if ph.get("special"):
            cuts += [0, 1, 2, n - 1, n - 2] + self.frame_boundaries(content) + [b - 1 for b in self.frame_boundaries(content)] + [b + 1 for b in self.frame_boundaries(content)]
            # prefixes that end in the pickle STOP opcode ('.') look complete to a naive check
            # (the stored fingerprint of the config cache hashes absolute paths, i.e. this worker's private scratch
            # folder: those 20 bytes are not looked at, or the choice of cut points would depend on the process id)
            masked = bytearray(content)
            hpos = content.find(b"db_hash")
            hval = content.find(b"C\x14", hpos, hpos + 40) if hpos >= 0 else -1
            if hval >= 0:
                masked[hval + 2 : hval + 22] = bytes(20)
            stops = [k for k in range(1, n) if masked[k - 1] == 0x2E]
            cuts += stops[:: max(1, len(stops) // 24)][:30]
        cuts = sorted({c for c in cuts if 0 <= c < n})
        fb = set(self.frame_boundaries(content))
        for k in cuts:
            for which in ("quick", "data"):
                pth, cont = snap[which]
                with open(pth, "wb") as f:
                    f.write(cont if which != ph["file"] else cont[:k])
            self.fault("prefix_" + ph["file"])
            if k == 0:
                self.probe("cut_at_0")
            if k in fb:
                self.probe("cut_at_frame_boundary")
            self.log.add("cut", ph["file"], k, n)
            nrec = len(self.records)
            self.solo(wl, f"sweep {ph['file']} cache cut at {k}/{n}, victim")
            self.solo(wl, f"sweep {ph['file']} cache cut at {k}/{n}, second start")
            p3 = self.solo(wl, f"sweep {ph['file']} cache cut at {k}/{n}, third start")
            self.check_healed(p3, f"sweep {ph['file']} cut {k}/{n}")
            if len(self.records) > nrec + 40:
                break
        self.sweep_cuts = len(cuts)

    # -- whole run
    def execute(self) -> dict:
        prepare_data(self.plan["profile"])
        self.wipe_cache()
        try:
            self.reference()
            if self.plan.get("cache_dir_absent"):
                shutil.rmtree(self.cache, ignore_errors=True)  # a user-defined cache folder that nobody has created yet
                self.probe("cache_folder_absent_at_start")
            for pi, ph in enumerate(self.plan["phases"]):
                kind = ph["kind"]
                if kind == "procs":
                    self.phase_procs(ph, pi)
                elif kind == "damage":
                    self.phase_damage(ph, pi)
                elif kind == "stale":
                    self.phase_stale(ph, pi)
                elif kind == "heal":
                    self.phase_heal(ph, pi)
                elif kind == "sweep":
                    self.phase_sweep(ph, pi)
                elif kind == "tearsweep":
                    self.phase_tearsweep(ph, pi)
                else:
                    raise HarnessError(f"unknown phase {kind}")
        finally:
            self.ds.restore()
        shape = [
            [ph["kind"]] + ([len(ph["procs"]), sorted(len(p["workload"]) for p in ph["procs"])] if ph["kind"] == "procs" else [ph.get("file"), ph.get("how"), ph.get("target")])
            for ph in self.plan["phases"]
        ]
        fault_sig = [
            [ph["kind"], ph.get("file"), ph.get("how"), ph.get("cut"), ph.get("target"), ph.get("from")]
            if ph["kind"] != "procs"
            else [[p.get("crash"), p.get("split"), p.get("flavour")] for p in ph["procs"]]
            for ph in self.plan["phases"]
        ]
        nontrivial = bool(self.faults) or any(ph["kind"] == "procs" and len(ph["procs"]) >= 2 for ph in self.plan["phases"])
        return {
            "records": _dedup(self.records),
            "digest": self.log.digest(),
            "sig": [digest(self.sched_sig)[:16], digest(fault_sig)[:16], digest([self.plan["profile"], shape])[:16]],
            "nontrivial": nontrivial,
            "faults": self.faults,
            "probes": self.probes,
            "sim_time_us": self.now,
            "steps": self.steps,
            "states": sorted(self.states),
            "obs": {"processes": self.nprocs},
            "trace": self.trace,
            **({"events": self.log.events} if os.environ.get("VERIF_KEEP_EVENTS") else {}),
        }


def _dedup(records: list) -> list:
    seen = set()
    out = []
    for r in records:
        k = (r["oracle"], r["site"])
        if k in seen:
            continue
        seen.add(k)
        out.append(r)
    return out


def execute(plan: dict) -> dict:
    worker_init()
    return Run(plan).execute()


# ----------------------------------------------------------------------------------------------
# plan generation


def families(tier: str):
    if tier == "quick":
        return [("sched", 220), ("damage", 60), ("stale", 90), ("rd", 40), ("tearsweep", 48), ("nocache", 50), ("sweepq", 32), ("sweepd", 12), ("sweepfull", 1)]
    return [("sched", 12000), ("damage", 3000), ("stale", 3000), ("rd", 2000), ("tearsweep", 300), ("nocache", 3000), ("sweepq", 700), ("sweepd", 900), ("full", 32), ("sweepfull", 6)]


def _workload(rng: random.Random, n_max: int = 6, need_cfg: bool = False):
    n = rng.randint(1, n_max)
    mix = rng.choice([("quick", "cfg", "dev"), ("cfg",), ("quick", "cfg"), ("cfg", "dev"), ("quick",)])
    wl = [[rng.choice(mix), rng.randrange(64)] for _ in range(n)]
    if need_cfg and not any(c == "cfg" for c, _ in wl):
        wl.append(["cfg", rng.randrange(64)])
    # bias to few distinct config files so that processes collide on the same cache entries
    if rng.random() < 0.5:
        for w in wl:
            if w[0] == "cfg":
                w[1] %= 3
    return wl


def _procs_phase(rng: random.Random, nmax: int, crash_rate: float):
    n = rng.choice([2, 2, 3, 3, 4, 5, 6, 8, 12, 16])
    n = min(n, nmax)
    procs = []
    for _ in range(n):
        spec = {"flavour": "normal", "workload": _workload(rng)}
        if rng.random() < 0.04:
            spec["flavour"] = "nocache"
        r = rng.random()
        if r < crash_rate * 0.5:
            spec["crash"] = {"at_yield": rng.randrange(40)}
        elif r < crash_rate:
            den = rng.choice([1, 2, 3, 7, 1000])
            spec["crash"] = {"tear_commit": rng.randrange(3), "num": rng.randrange(den) if den > 1 else 0, "den": den}
        elif r < crash_rate + 0.2:
            spec["split"] = {"commit": rng.randrange(3), "num": rng.randrange(1, 8), "den": 8}
        elif r < crash_rate + 0.27:
            spec["stall"] = {"at_yield": rng.randrange(40), "us": rng.choice([11_000_000, 25_000_000])}
        elif r < crash_rate + 0.33:
            # a stall at a seam that lies inside a locked region (reading, writing, about to unlock): the holder keeps the lock
            spec["stall"] = {"seam": rng.choice(["open_r", "open_w", "commit", "unlock"]), "nth": rng.randrange(3), "us": rng.choice([11_000_000, 25_000_000])}
        if rng.random() < 0.35:
            spec["pauses"] = [{"at_yield": k, "us": rng.choice([60_000, 200_000, 1_000_000])} for k in sorted(rng.sample(range(40), rng.randint(1, 3)))]
        elif rng.random() < 0.3:
            spec["pauses"] = [{"seam": rng.choice(["remove", "open_w", "commit", "mkdir", "open_r", "unlock"]), "nth": rng.randrange(3), "us": rng.choice([60_000, 200_000])} for _ in range(rng.randint(1, 2))]
        procs.append(spec)
    style = rng.random()
    if style < 0.15:
        # lockstep: every runnable process advances one seam in turn, so that all of them stand at the same
        # check-then-act window together
        sched = [k % 16 for k in range(400)]
    elif style < 0.3:
        sched = []  # purely seeded
    elif style < 0.6:
        # bursty: run one process for a while, then switch
        sched = []
        while len(sched) < 400:
            c = rng.randrange(16)
            sched += [c] * rng.randint(1, 12)
    else:
        sched = [rng.randrange(16) for _ in range(400)]
    return {"kind": "procs", "procs": procs, "sched": sched, "sched_seed": rng.randrange(1 << 30)}


def _damage_phase(rng: random.Random):
    how = rng.choice(["missing", "empty", "prefix", "prefix", "prefix"])
    ph = {"kind": "damage", "file": rng.choice(["quick", "data"]), "how": how}
    if how == "prefix":
        ph["cut"] = rng.choice(
            [["abs", rng.randrange(0, 4)], ["frac", rng.randrange(1000), 1000], ["end", rng.randrange(1, 40)], ["frame", rng.randrange(8)], ["abs", rng.randrange(4, 200)]]
        )
    return ph


def gen_plan(family: str, i: int, rng: random.Random, tier: str) -> dict:
    plan = _gen_plan(family, i, rng, tier)
    if family in ("sched", "damage", "nocache", "stale") and rng.random() < 0.25:
        # processes that start from nothing: each imports SPSDK itself, under the interposer, before its first query
        for ph in plan["phases"]:
            if ph["kind"] == "procs":
                for p_ in ph["procs"]:
                    p_["fresh_import"] = True
        if rng.random() < 0.5:
            plan["cache_dir_absent"] = True
    return plan


def _gen_plan(family: str, i: int, rng: random.Random, tier: str, targets=None) -> dict:
    if family == "sched":
        profile = "tiny" if rng.random() < 0.75 else "small"
        phases = []
        nmax = 6 if tier == "quick" else 16
        if rng.random() < 0.35:
            phases.append({"kind": "procs", "procs": [{"flavour": "normal", "workload": _workload(rng, need_cfg=True)}], "sched": [], "sched_seed": 0})
        if rng.random() < 0.3:
            phases.append(_damage_phase(rng))
        phases.append(_procs_phase(rng, nmax, crash_rate=rng.choice([0.0, 0.15, 0.3])))
        if rng.random() < 0.25:
            phases.append({"kind": "stale", "target": rng.choice(sorted(STALE_TARGETS)), "variant": rng.randrange(6)})
            phases.append(_procs_phase(rng, min(nmax, 4), crash_rate=0.1))
        phases.append({"kind": "heal"})
        return {"profile": profile, "phases": phases}
    if family == "nocache":
        # one cache-disabled process (its clear_cache() removes the whole folder, lock files included) among normal ones
        phases = []
        if rng.random() < 0.6:
            phases.append({"kind": "procs", "procs": [{"flavour": "normal", "workload": _workload(rng, need_cfg=True)}], "sched": [], "sched_seed": 0})
        if rng.random() < 0.3:
            phases.append(_damage_phase(rng))
        ph = _procs_phase(rng, 5, crash_rate=rng.choice([0.0, 0.2]))
        for p_ in ph["procs"]:
            p_["flavour"] = "normal"
        ph["procs"][rng.randrange(len(ph["procs"]))]["flavour"] = "nocache"
        if len(ph["procs"]) > 3 and rng.random() < 0.3:
            ph["procs"][0]["flavour"] = "nocache"
        phases += [ph, {"kind": "heal"}]
        return {"profile": "tiny", "phases": phases}
    if family == "tearsweep":
        # the quick-info cache of the tiny profile has ~2900 bytes; run i covers a window of rewrite positions
        width = 192 if tier == "quick" else 32
        stride = 4 if tier == "quick" else 1
        target = ["device_removed", "device", "defaults"][i % 3]
        j = i // 3
        return {"profile": "tiny", "phases": [{"kind": "tearsweep", "file": "quick", "target": target, "variant": 1, "from": j * width, "to": (j + 1) * width, "stride": stride}]}
    if family == "rd":
        # restricted-data and add-ons folders in use: the stale scenario aimed at their files, or a plain concurrent start
        if rng.random() < 0.65:
            plan = _gen_plan("stale", i, rng, tier, targets=RD_STALE)
        else:
            plan = _gen_plan("sched", i, rng, tier)
        plan["profile"] = "rd"
        return plan
    if family == "stale":
        # warm cache holding the target's records, the data file changes, then processes that reach the target
        # through different orders of other queries (a stale record must not survive by being merged back)
        target = rng.choice(targets or sorted(t_ for t_ in STALE_TARGETS if not t_.startswith(("rd_", "addon_"))))
        tkeys = [["key", k] for k in STALE_KEYS[target]]

        def aimed(n_other: int):
            wl = [["cfg", rng.randrange(6)] for _ in range(n_other)] + [rng.choice(tkeys)] + ([["quick", rng.randrange(64)]] if rng.random() < 0.4 else [])
            if rng.random() < 0.5:
                rng.shuffle(wl)
            return wl

        warm = {"kind": "procs", "procs": [{"flavour": "normal", "workload": [["cfg", rng.randrange(6)]] + tkeys + [["cfg", rng.randrange(6)]]}], "sched": [], "sched_seed": 0}
        phases = [warm, {"kind": "stale", "target": target, "variant": rng.randrange(6)}]
        if rng.random() < 0.35:
            # two things at once: the config cache is outdated *and* the quick-info cache is unusable (a writer was killed,
            # or it was never written), so the next start rebuilds the quick-info database by loading everything
            dmg = _damage_phase(rng)
            dmg["file"] = "quick"
            phases.append(dmg)
        n = rng.choice([1, 2, 2, 3])
        procs = [{"flavour": "normal", "workload": aimed(rng.randint(1, 3))} for _ in range(n)]
        if rng.random() < 0.45:
            procs[0]["crash"] = {"tear_commit": rng.randrange(2), "num": rng.randrange(1, 64), "den": 64}
        if n > 1:
            for p_ in procs:
                r_ = rng.random()
                if r_ < 0.3:
                    p_["pauses"] = [{"at_yield": k, "us": rng.choice([60_000, 200_000])} for k in sorted(rng.sample(range(4, 24), rng.randint(1, 3)))]
                elif r_ < 0.75:
                    p_["pauses"] = [{"seam": rng.choice(["remove", "remove", "open_w", "commit", "open_r"]), "nth": rng.randrange(2), "us": rng.choice([60_000, 200_000])} for _ in range(rng.randint(1, 2))]
        if n > 1 and rng.random() < 0.5:
            sched = [k % 16 for k in range(300)]  # lockstep: all processes judge the outdated cache together
            if rng.random() < 0.7:
                for p_ in procs[1:]:
                    p_["workload"] = copy.deepcopy(procs[0]["workload"])  # the same program, seam for seam
        else:
            sched = [rng.randrange(16) for _ in range(200)] if n > 1 else []
        phases.append({"kind": "procs", "procs": procs, "sched": sched, "sched_seed": rng.randrange(1 << 30)})
        if rng.random() < 0.4:
            phases.append({"kind": "stale", "target": rng.choice(sorted(STALE_TARGETS)), "variant": rng.randrange(6)})
            phases.append({"kind": "procs", "procs": [{"flavour": "normal", "workload": aimed(2)}], "sched": [], "sched_seed": 0})
        phases.append({"kind": "heal"})
        return {"profile": "tiny", "phases": phases}
    if family == "damage":
        profile = "tiny" if rng.random() < 0.8 else "small"
        phases = [{"kind": "procs", "procs": [{"flavour": "normal", "workload": _workload(rng, need_cfg=True)}], "sched": [], "sched_seed": 0}]
        for _ in range(rng.randint(1, 2)):
            r = rng.random()
            if r < 0.7:
                phases.append(_damage_phase(rng))
            else:
                phases.append({"kind": "stale", "target": rng.choice(sorted(STALE_TARGETS)), "variant": rng.randrange(6)})
        if rng.random() < 0.5:
            phases.append(_procs_phase(rng, 3, crash_rate=0.0))
        else:
            phases.append({"kind": "procs", "procs": [{"flavour": "normal", "workload": _workload(rng)}], "sched": [], "sched_seed": 0})
        phases.append({"kind": "heal"})
        return {"profile": profile, "phases": phases}
    if family in ("sweepq", "sweepd"):
        which = "quick" if family == "sweepq" else "data"
        if tier == "quick" and which == "quick":
            # the quick-info cache of the tiny profile is small (2908 bytes): every prefix length, 32 runs x 96 lengths
            return {"profile": "tiny", "phases": [{"kind": "sweep", "file": which, "from": i * 96, "to": (i + 1) * 96, "stride": 1, "special": i == 0}]}
        if tier == "quick":
            # strided sweep of the config cache: run i covers offsets i*83 mod stride, +stride, ... plus the special points
            stride = 2503
            return {
                "profile": "tiny",
                "phases": [{"kind": "sweep", "file": which, "from": (i * 83) % stride, "to": 1 << 30, "stride": stride, "special": i == 0}],
            }
        width = 16 if which == "quick" else 48
        return {"profile": "tiny", "phases": [{"kind": "sweep", "file": which, "from": i * width, "to": (i + 1) * width, "stride": 1, "special": i == 0}]}
    if family == "sweepfull":
        # the shipped data folder: its quick-info cache is larger than one pickle frame (64 KiB), so only here do
        # truncations exactly at / next to a frame boundary exist; special points only (0, 1, 2, boundaries +-1, n-2, n-1)
        which = "quick" if i % 2 == 0 else "data"
        lo = 1 << 29  # no regular positions, only the special ones
        if i >= 2:
            lo = 60000 + 977 * i  # thorough: a few strided positions around the first frame boundary as well
        return {"profile": "full", "phases": [{"kind": "sweep", "file": which, "from": lo, "to": lo + (0 if i < 2 else 9000), "stride": 1499, "special": True}]}
    if family == "full":
        phases = []
        if rng.random() < 0.5:
            phases.append({"kind": "procs", "procs": [{"flavour": "normal", "workload": _workload(rng, need_cfg=True)}], "sched": [], "sched_seed": 0})
            phases.append(_damage_phase(rng))
        phases.append(_procs_phase(rng, 8, crash_rate=0.2))
        phases.append({"kind": "heal"})
        for ph in phases:
            if ph["kind"] == "procs":
                for p in ph["procs"]:
                    p["flavour"] = "normal"
        return {"profile": "full", "phases": phases}
    raise HarnessError(f"unknown family {family}")


# ----------------------------------------------------------------------------------------------
# reductions for the shrinker


def reductions(plan: dict):
    if plan.get("cache_dir_absent"):
        c = copy.deepcopy(plan)
        c.pop("cache_dir_absent")
        yield c
    # 1. drop whole phases (never the last one if it is the only one)
    if len(plan["phases"]) > 1:
        yield from ddmin_lists(plan, [["phases"]])
    for pi, ph in enumerate(plan["phases"]):
        if ph["kind"] == "procs":
            if len(ph["procs"]) > 1:
                yield from ddmin_lists(plan, [["phases", pi, "procs"]])
            for qi, p in enumerate(ph["procs"]):
                if len(p["workload"]) > 1:
                    yield from ddmin_lists(plan, [["phases", pi, "procs", qi, "workload"]])
                for key in ("crash", "split", "stall", "fresh_import", "pauses"):
                    if p.get(key):
                        c = copy.deepcopy(plan)
                        c["phases"][pi]["procs"][qi].pop(key)
                        yield c
                if p.get("flavour") != "normal":
                    c = copy.deepcopy(plan)
                    c["phases"][pi]["procs"][qi]["flavour"] = "normal"
                    yield c
            if ph.get("sched"):
                c = copy.deepcopy(plan)
                c["phases"][pi]["sched"] = []
                c["phases"][pi]["sched_seed"] = 0
                yield c
                c = copy.deepcopy(plan)
                c["phases"][pi]["sched"] = [0] * len(ph["sched"])
                yield c
                yield from ddmin_lists(plan, [["phases", pi, "sched"]])
        if ph["kind"] == "sweep" and ph["to"] - ph["from"] > 1 and ph.get("stride", 1) == 1:
            mid = (ph["from"] + ph["to"]) // 2
            for a, b in ((ph["from"], mid), (mid, ph["to"])):
                c = copy.deepcopy(plan)
                c["phases"][pi].update({"from": a, "to": b, "special": False})
                yield c
        if ph["kind"] == "sweep" and ph.get("special"):
            c = copy.deepcopy(plan)
            c["phases"][pi]["special"] = False
            yield c
    if plan["profile"] != "tiny":
        c = copy.deepcopy(plan)
        c["profile"] = "tiny"
        yield c
