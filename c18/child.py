"""C18 child side: zygote, OS-interface interposer filtered to the cache folder, query battery.

Runs inside the zygote and the simulated SPSDK processes forked from it. The worker (scheduler)
never imports this module's SPSDK parts; it only calls start_zygote().
"""
from __future__ import annotations

import array
import hashlib
import json
import os
import socket
import sys
import traceback

EPOCH = 1_750_000_000.0  # simulated wall-clock origin


# ----------------------------------------------------------------------------------------------
# channel (raw fds, real os functions captured at import)

_os_read = os.read
_os_write = os.write
_os_close = os.close


class Chan:
    def __init__(self, rfd: int, wfd: int) -> None:
        self.rfd = rfd
        self.wfd = wfd
        self.buf = b""

    def send(self, obj) -> None:
        data = (json.dumps(obj, separators=(",", ":")) + "\n").encode()
        while data:
            n = _os_write(self.wfd, data)
            data = data[n:]

    def recv(self):
        while b"\n" not in self.buf:
            chunk = _os_read(self.rfd, 65536)
            if not chunk:
                return None
            self.buf += chunk
        line, self.buf = self.buf.split(b"\n", 1)
        return json.loads(line)


# ----------------------------------------------------------------------------------------------
# zygote


def start_zygote(env: dict, bare: bool = False) -> tuple[int, socket.socket]:
    """Fork a zygote that imports spsdk.utils.database under `env`; returns (pid, control socket).
    A bare zygote imports nothing of SPSDK: its children import it themselves, under the interposer, as part of their start."""
    parent_sock, child_sock = socket.socketpair(socket.AF_UNIX, socket.SOCK_STREAM)
    pid = os.fork()
    if pid:
        child_sock.close()
        # wait until the zygote has finished its imports: nothing of the simulated world (the cache folder is wiped
        # and re-created at the start of a run) may change while real, unscheduled SPSDK code is still running
        parent_sock.settimeout(300)
        try:
            hello = parent_sock.recv(16)
        except OSError as exc:
            raise RuntimeError(f"zygote did not come up: {exc}") from exc
        finally:
            parent_sock.settimeout(None)
        if not hello.startswith(b"ready"):
            raise RuntimeError(f"zygote failed to start: {hello!r}")
        return pid, parent_sock
    # ---- zygote
    try:
        parent_sock.close()
        for k in list(os.environ):
            if k.startswith("SPSDK_"):
                del os.environ[k]
        os.environ.update(env)
        import logging

        if bare:
            assert "spsdk" not in sys.modules
            # third-party and standard modules only, so that a child's own import of spsdk is short
            import pickle  # noqa: F401 pylint: disable=unused-import

            import filelock  # noqa: F401 pylint: disable=unused-import
            import platformdirs  # noqa: F401 pylint: disable=unused-import
            import ruamel.yaml  # noqa: F401 pylint: disable=unused-import
        else:
            import spsdk
            from spsdk.utils import database

            repo = os.environ.get("VERIF_REPO", "/repo")
            assert os.path.realpath(spsdk.__file__).startswith(os.path.realpath(repo) + os.sep), spsdk.__file__
            assert database.DatabaseManager._instance is None
        logging.disable(logging.CRITICAL)
        child_sock.sendall(b"ready\n")
        _zygote_loop(child_sock)
    except BaseException:  # pylint: disable=broad-except
        traceback.print_exc()
    finally:
        os._exit(0)
    return 0, parent_sock  # unreachable


def _recv_msg(sock: socket.socket, maxfds: int = 2):
    fds = array.array("i")
    msg, ancdata, _flags, _addr = sock.recvmsg(1 << 20, socket.CMSG_LEN(maxfds * fds.itemsize))
    if not msg:
        return None, []
    for level, typ, data in ancdata:
        if level == socket.SOL_SOCKET and typ == socket.SCM_RIGHTS:
            fds.frombytes(data[: len(data) - (len(data) % fds.itemsize)])
    return json.loads(msg), list(fds)


def _zygote_loop(sock: socket.socket) -> None:
    pids: dict[int, int] = {}
    while True:
        msg, fds = _recv_msg(sock)
        if msg is None or msg.get("op") == "quit":
            return
        if msg["op"] == "spawn":
            rfd, wfd = fds
            pid = os.fork()
            if pid == 0:
                try:
                    sock.close()
                    child_main(Chan(rfd, wfd), msg["spec"])
                finally:
                    os._exit(0)
            _os_close(rfd)
            _os_close(wfd)
            pids[msg["id"]] = pid
            sock.sendall(b'{"ok":1}\n')
        elif msg["op"] == "reap":
            pid = pids.pop(msg["id"], None)
            status = -1
            if pid is not None:
                _, status = os.waitpid(pid, 0)
            sock.sendall((json.dumps({"ok": 1, "status": status}) + "\n").encode())


# ----------------------------------------------------------------------------------------------
# interposer


class Die(BaseException):
    pass


class Seams:
    def __init__(self, chan: Chan, cache_root: str) -> None:
        self.chan = chan
        self.root = os.path.abspath(cache_root)
        self.now_us = 0
        self.fds: dict[int, str] = {}
        self.stats = {"open_w": 0, "open_r": 0, "remove": 0, "commit": 0}

    # -- helpers
    def inside(self, path) -> bool:
        if isinstance(path, int):
            return False
        try:
            p = os.fspath(path)
        except TypeError:
            return False
        if isinstance(p, bytes):
            try:
                p = p.decode()
            except UnicodeDecodeError:
                return False
        p = os.path.abspath(p)
        return p == self.root or p.startswith(self.root + os.sep)

    def name(self, path) -> str:
        p = os.path.abspath(os.fspath(path))
        if p == self.root:
            return "dir"
        b = os.path.basename(p)
        kind = "other"
        if b.startswith("db_quick_info_"):
            kind = "quick"
        elif b.startswith("db_data_"):
            kind = "data"
        if b.endswith(".cache"):
            return kind + ".cache"
        if b.endswith(".cache.lock"):
            return kind + ".lock"
        return kind + ":" + ("tmp" if kind == "other" else b.rsplit(".", 1)[-1])

    def park(self, seam: str, **detail):
        """Yield point: tell the scheduler where we are, wait for its decision."""
        self.chan.send({"y": seam, **detail})
        rep = self.chan.recv()
        if rep is None or rep.get("a") == "die":
            os._exit(137)
        self.now_us = rep.get("now", self.now_us)
        return rep

    def install(self) -> None:
        import builtins
        import fcntl
        import io
        import shutil
        import time

        S = self
        shutil._use_fd_functions = False  # so that rmtree uses path based calls the filter can see

        real_open = builtins.open

        def sim_open(file, mode="r", *a, **kw):
            if isinstance(file, int):
                # a file object made from a descriptor (os.fdopen): the descriptor of a cache file keeps its seams
                if file not in S.fds:
                    return real_open(file, mode, *a, **kw)
                nm = S.fds[file]
                if any(c in mode for c in "wax+"):
                    S.stats["open_w"] += 1
                    S.park("open_w", f=nm, mode=mode)
                    f = real_open(file, mode if "b" in mode else mode + "b", *a, **{k: v for k, v in kw.items() if k not in ("encoding", "newline", "errors")})
                    return TornWriter(S, f, nm, binary="b" in mode)
                S.stats["open_r"] += 1
                S.park("open_r", f=nm)
                return real_open(file, mode, *a, **kw)
            if not S.inside(file):
                return real_open(file, mode, *a, **kw)
            nm = S.name(file)
            writing = any(c in mode for c in "wax+")
            if writing:
                S.stats["open_w"] += 1
                S.park("open_w", f=nm, mode=mode)
                f = real_open(file, mode if "b" in mode else mode + "b", *a, **{k: v for k, v in kw.items() if k not in ("encoding", "newline", "errors")})
                return TornWriter(S, f, nm, binary="b" in mode)
            S.stats["open_r"] += 1
            S.park("open_r", f=nm)
            return real_open(file, mode, *a, **kw)

        builtins.open = sim_open
        io.open = sim_open

        def wrap_path(modobj, fname, seam, nargs=1):
            real = getattr(modobj, fname)

            def wrapper(*a, **kw):
                if "dir_fd" in kw and kw["dir_fd"] is not None:
                    return real(*a, **kw)
                paths = a[:nargs]
                if paths and any(S.inside(p) for p in paths):
                    if seam == "remove":
                        S.stats["remove"] += 1
                    S.park(seam, f=S.name(paths[0]), **({"to": S.name(paths[1])} if nargs == 2 and len(paths) > 1 else {}))
                return real(*a, **kw)

            wrapper.__name__ = fname
            setattr(modobj, fname, wrapper)

        for fname, seam in (
            ("stat", "stat"),
            ("lstat", "stat"),
            ("remove", "remove"),
            ("unlink", "remove"),
            ("mkdir", "mkdir"),
            ("rmdir", "rmdir"),
            ("scandir", "scandir"),
            ("listdir", "scandir"),
            ("truncate", "truncate"),
            ("utime", "utime"),
            ("chmod", "chmod"),
        ):
            wrap_path(os, fname, seam)
        # directory listings of the cache folder are returned in logical-name order: the real order
        # depends on the hash-derived file names (which contain the scratch path) and would make the
        # order of rmtree's removals differ from one worker to the next
        park_scandir = os.scandir
        park_listdir = os.listdir

        class _SortedScan:
            def __init__(self, entries):
                self.entries = entries

            def __iter__(self):
                return iter(self.entries)

            def __next__(self):
                raise StopIteration

            def __enter__(self):
                return self

            def __exit__(self, *a):
                return False

            def close(self):
                pass

        def sorted_scandir(path=".", *a, **kw):
            it = park_scandir(path, *a, **kw)
            if not S.inside(path):
                return it
            with it:
                entries = sorted(it, key=lambda e: (S.name(e.path), e.name))
            return _SortedScan(entries)

        def sorted_listdir(path=".", *a, **kw):
            lst = park_listdir(path, *a, **kw)
            if not S.inside(path):
                return lst
            return sorted(lst, key=lambda n: (S.name(os.path.join(os.fspath(path), n)), n))

        os.scandir = sorted_scandir
        os.listdir = sorted_listdir

        for fname in ("rename", "replace", "link", "symlink"):
            wrap_path(os, fname, fname if fname in ("rename", "replace") else "link", nargs=2)

        real_os_open = os.open

        def sim_os_open(path, flags, mode=0o777, *, dir_fd=None):
            if dir_fd is not None or not S.inside(path):
                return real_os_open(path, flags, mode, dir_fd=dir_fd)
            nm = S.name(path)
            S.park("os_open", f=nm, trunc=bool(flags & os.O_TRUNC), creat=bool(flags & os.O_CREAT))
            fd = real_os_open(path, flags, mode)
            S.fds[fd] = nm
            return fd

        os.open = sim_os_open

        real_close = os.close

        def sim_close(fd):
            S.fds.pop(fd, None)
            return real_close(fd)

        os.close = sim_close

        real_write = os.write

        def sim_write(fd, data):
            if fd in S.fds:
                S.park("os_write", f=S.fds[fd], n=len(data))
            return real_write(fd, data)

        os.write = sim_write

        real_fsync = os.fsync

        def sim_fsync(fd):
            if hasattr(fd, "fileno"):
                fd = fd.fileno()
            if fd in S.fds:
                S.park("fsync", f=S.fds[fd])
            return real_fsync(fd)

        os.fsync = sim_fsync

        real_flock = fcntl.flock

        def sim_flock(fd, op):
            if hasattr(fd, "fileno"):
                fd = fd.fileno()
            if fd in S.fds:
                un = bool(op & fcntl.LOCK_UN)
                if un:
                    S.park("unlock", f=S.fds[fd])
                    return real_flock(fd, op)
                S.park("lock_try", f=S.fds[fd])
                try:
                    r = real_flock(fd, op | fcntl.LOCK_NB)
                except OSError:
                    S.chan.send({"note": "lock_busy", "f": S.fds[fd]})
                    if op & fcntl.LOCK_NB:
                        raise
                    # a blocking flock: poll in simulated time
                    while True:
                        S.park("sleep", d=50000)
                        try:
                            r = real_flock(fd, op | fcntl.LOCK_NB)
                            break
                        except OSError:
                            continue
                S.chan.send({"note": "lock_got", "f": S.fds[fd]})
                return r
            return real_flock(fd, op)

        fcntl.flock = sim_flock
        if hasattr(fcntl, "lockf"):
            real_lockf = fcntl.lockf

            def sim_lockf(fd, cmd, *a):
                fdn = fd.fileno() if hasattr(fd, "fileno") else fd
                if fdn in S.fds:
                    S.park("lockf", f=S.fds[fdn])
                return real_lockf(fd, cmd, *a)

            fcntl.lockf = sim_lockf

        def sim_sleep(d):
            S.park("sleep", d=int(max(d, 0) * 1e6))

        time.sleep = sim_sleep
        time.perf_counter = lambda: S.now_us / 1e6
        time.monotonic = lambda: S.now_us / 1e6
        time.time = lambda: EPOCH + S.now_us / 1e6
        time.perf_counter_ns = lambda: S.now_us * 1000
        time.monotonic_ns = lambda: S.now_us * 1000
        time.time_ns = lambda: int(EPOCH * 1e9) + S.now_us * 1000


class TornWriter:
    """Buffers a cache file opened for writing until flush/close, so a torn length can be chosen."""

    def __init__(self, seams: Seams, f, name: str, binary: bool) -> None:
        self.S = seams
        self.f = f
        self.nm = name
        self.binary = binary
        self.buf = bytearray()
        self.closed = False
        self.mode = f.mode
        self.name = f.name

    def write(self, data):
        if not self.binary and isinstance(data, str):
            data = data.encode()
        self.buf += data
        return len(data)

    def writelines(self, lines):
        for ln in lines:
            self.write(ln)

    def _commit(self):
        if not self.buf:
            return
        n = len(self.buf)
        self.S.stats["commit"] += 1
        rep = self.S.park("commit", f=self.nm, n=n)
        a = rep.get("a")
        if a == "tear":
            k = min(max(int(rep["k"]), 0), n - 1)
            self.f.write(bytes(self.buf[:k]))
            self.f.flush()
            os._exit(137)
        if a == "split":
            k = min(max(int(rep["k"]), 0), n)
            self.f.write(bytes(self.buf[:k]))
            self.f.flush()
            self.S.park("commit2", f=self.nm, n=n - k)
            self.f.write(bytes(self.buf[k:]))
        else:
            self.f.write(bytes(self.buf))
        self.f.flush()
        self.buf.clear()

    def flush(self):
        self._commit()

    def fileno(self):
        self._commit()
        fd = self.f.fileno()
        self.S.fds.setdefault(fd, self.nm)
        return fd

    def tell(self):
        return self.f.tell() + len(self.buf)

    def close(self):
        if self.closed:
            return
        self.closed = True
        try:
            self._commit()
        finally:
            self.S.fds.pop(self.f.fileno(), None) if not self.f.closed else None
            self.f.close()

    def writable(self):
        return True

    def readable(self):
        return False

    def seekable(self):
        return False

    def __enter__(self):
        return self

    def __exit__(self, *exc):
        self.close()
        return False

    def __del__(self):
        try:
            self.close()
        except BaseException:  # pylint: disable=broad-except
            pass


# ----------------------------------------------------------------------------------------------
# canonical answers


def canon_obj(o, depth=0):
    if depth > 40:
        return "<deep>"
    if o is None or isinstance(o, (bool, int, float, str)):
        return o
    if isinstance(o, (bytes, bytearray)):
        return {"__b": bytes(o).hex()}
    if isinstance(o, dict):
        return {str(k): canon_obj(v, depth + 1) for k, v in o.items()}
    if isinstance(o, (list, tuple)):
        return [canon_obj(v, depth + 1) for v in o]
    if isinstance(o, (set, frozenset)):
        return sorted(canon_obj(v, depth + 1) for v in o)
    d = getattr(o, "__dict__", None)
    if d is not None:
        out = {"__class__": type(o).__name__}
        for k, v in d.items():
            if k in ("db", "device", "device_alias", "_db"):
                out[k] = getattr(v, "name", None) if v is not None else None
            else:
                out[k] = canon_obj(v, depth + 1)
        return out
    return repr(o)


def _h(obj) -> str:
    s = json.dumps(obj, sort_keys=True, separators=(",", ":"), default=repr)
    return hashlib.sha256(s.encode()).hexdigest()[:20]


def answer(key: str):
    """One database query. Keys are built by battery_keys()."""
    from spsdk.utils import database as db

    kind, _, arg = key.partition(":")
    dm = db.DatabaseManager()
    qi = dm.quick_info
    if kind == "qdevs":
        return sorted(qi.devices.devices.keys())
    if kind == "qfeat":
        return qi.devices.get_feature_list(arg)
    if kind == "qwith":
        f, _, sub = arg.partition("/")
        return db.get_families(f, sub or None)
    if kind == "qmem":
        return sorted(qi.features_data.get_mem_types(arg))
    if kind == "qallf":
        return sorted(qi.features_data.get_all_features)
    if kind == "qpred":
        devs = sorted(qi.devices.devices.keys())
        return [qi.devices.predecessor_lookup, qi.devices.get_predecessors(devs)]
    if kind == "qname":
        return [qi.devices.get_correct_name(arg), qi.devices.is_predecessor_name(arg)]
    if kind == "qgroups":
        return qi.sort_devices_to_groups(sorted(qi.devices.devices.keys()))
    if kind == "qinfo":
        return canon_obj(qi.devices.devices[arg])
    if kind == "dev":
        d = db.get_device(arg)
        return {
            "name": d.name,
            "latest": d.latest_rev,
            "alias": d.device_alias.name if d.device_alias else None,
            "info": canon_obj(d.info),
            "revs": [[r.name, r.is_latest, canon_obj(r.features)] for r in d.revisions],
        }
    if kind == "devfeat":
        dev, _, rev = arg.partition("/")
        return canon_obj(db.get_db(dev, rev or "latest").features)
    if kind == "sch":
        return canon_obj(db.get_schema_file(arg))
    if kind == "schmut":
        # a caller that customises the schema it was given (SPSDK's own helpers do: templates, family specific enums):
        # what it got is its own copy, so nothing of this may reach the database or its cache
        sch = db.get_schema_file(arg)
        out = canon_obj(sch)

        def scribble(o, depth=0):
            if isinstance(o, dict):
                for k_ in list(o)[:6]:
                    if depth < 3:
                        scribble(o[k_], depth + 1)
                o["verif_customised"] = "by the caller"
            elif isinstance(o, list):
                for it in o[:4]:
                    if depth < 3:
                        scribble(it, depth + 1)
                o.append("verif_customised")

        scribble(sch)
        return out
    if kind == "cfg":
        path = dm.db.get_data_file_path(arg)
        return canon_obj(dm.db.load_db_cfg_file(path))
    if kind == "defaults":
        return canon_obj(dm.db.get_defaults(arg))
    if kind == "path":
        p = dm.db.get_data_file_path(arg, exc_enabled=False)
        return [os.path.relpath(p, db.SPSDK_DATA_FOLDER), os.path.exists(p)]
    raise ValueError(key)


def safe_answer(key: str):
    """A query that raises a documented SPSDK error has that error as its answer (compared with the reference)."""
    from spsdk.exceptions import SPSDKError

    try:
        return answer(key)
    except SPSDKError as exc:
        return ["raises", type(exc).__name__]


def battery_keys() -> list[str]:
    """Enumerate the whole query battery for the current data folder (reference child only)."""
    from spsdk.utils import database as db

    data = db.SPSDK_DATA_FOLDER
    devs = sorted(d for d in os.listdir(os.path.join(data, "devices")) if os.path.isdir(os.path.join(data, "devices", d)))
    rd = getattr(db, "SPSDK_RESTRICTED_DATA_FOLDER", None)
    if rd and os.path.isdir(os.path.join(rd, "data", "devices")):
        devs = sorted(set(devs) | {d for d in os.listdir(os.path.join(rd, "data", "devices")) if os.path.isdir(os.path.join(rd, "data", "devices", d))})
    feats = [f.label for f in db.FeaturesEnum]
    keys = ["qdevs", "qallf", "qpred", "qgroups"]
    for d in devs:
        keys += [f"qfeat:{d}", f"qinfo:{d}", f"dev:{d}", f"devfeat:{d}/latest", f"qname:{d}"]
    for f in feats:
        keys += [f"qwith:{f}", f"qmem:{f}", f"defaults:{f}"]
    keys += ["qwith:mbi/signed", "qwith:dat/dat_v1", "qname:lpc550x", "qname:nonexistent"]
    sch_dir = os.path.join(data, "jsonschemas")
    for fn in sorted(os.listdir(sch_dir)):
        if fn.startswith("sch_") and fn.endswith(".yaml"):
            keys.append("sch:" + fn[4:-5])
    for sub in ("memcfg", "xmcd", "tp"):
        p = os.path.join(data, "common", sub)
        if os.path.isdir(p):
            for fn in sorted(os.listdir(p)):
                if fn.endswith((".yaml", ".json")):
                    keys.append(f"cfg:common/{sub}/{fn}")
    keys += ["path:common/database_defaults.yaml", "path:common/nonexistent.yaml"]
    # (last: in the reference process nothing is asked after them)
    keys += [k.replace("sch:", "schmut:", 1) for k in keys if k.startswith("sch:")]
    return keys


def exc_site(exc: BaseException) -> str:
    tb = traceback.extract_tb(exc.__traceback__)
    fn = "?"
    for fr in tb:
        if os.sep + "spsdk" + os.sep in fr.filename:
            fn = f"{os.path.basename(fr.filename)}:{fr.name}"
    return f"{type(exc).__name__}@{fn}"


def child_main(chan: Chan, spec: dict) -> None:
    S = Seams(chan, spec["cache_root"])
    if os.environ.get("VERIF_C18_DEBUG"):
        _dbg = open(os.environ["VERIF_C18_DEBUG"] + "-%d.txt" % os.getpid(), "w")
        import signal as _sg

        _sg.signal(_sg.SIGALRM, lambda *_a: (_dbg.write("".join(traceback.format_stack())), _dbg.flush()))
        _sg.alarm(5)
        _orig_send = chan.send
        _orig_recv = chan.recv

        def _s(o):
            _dbg.write("send %r\n" % (o,)[:200])
            _dbg.flush()
            _orig_send(o)

        def _r():
            o = _orig_recv()
            _dbg.write("recv %r\n" % (o,))
            _dbg.flush()
            return o

        chan.send = _s
        chan.recv = _r
    try:
        if spec.get("env"):
            os.environ.update(spec["env"])
        S.install()
        S.park("start")
        answers = {}
        keys = spec["workload"]
        if keys == "ALL":
            from spsdk.utils import database as db

            db.DatabaseManager()
            keys = battery_keys()
        cur = None
        try:
            if spec.get("fresh_import"):
                # the process starts from nothing: importing SPSDK is part of its start (and may touch the cache folder)
                cur = "import spsdk"
                import spsdk
                import spsdk.utils.database  # noqa: F401 pylint: disable=unused-import

                repo = os.environ.get("VERIF_REPO", "/repo")
                if not os.path.realpath(spsdk.__file__).startswith(os.path.realpath(repo) + os.sep):
                    raise RuntimeError(f"harness: spsdk imported from {spsdk.__file__}")
            for cur in keys:
                answers[cur] = _h(safe_answer(cur))
            chan.send({"done": 1, "answers": answers, "stats": S.stats})
        except Exception as exc:  # pylint: disable=broad-except
            chan.send(
                {
                    "done": 1,
                    "answers": answers,
                    "stats": S.stats,
                    "exc": {
                        "type": type(exc).__name__,
                        "site": exc_site(exc),
                        "query": cur,
                        "msg": str(exc)[:300],
                        "tb": traceback.format_exc()[-3000:],
                        "spsdk_error": _is_spsdk_error(exc),
                    },
                }
            )
    except BaseException as exc:  # pylint: disable=broad-except
        try:
            chan.send({"done": 1, "answers": {}, "stats": S.stats, "harness": f"{type(exc).__name__}: {exc}\n{traceback.format_exc()[-3000:]}"})
        except BaseException:  # pylint: disable=broad-except
            pass
    finally:
        sys.stdout.flush()
        os._exit(0)


def _is_spsdk_error(exc) -> bool:
    try:
        from spsdk.exceptions import SPSDKError

        return isinstance(exc, SPSDKError)
    except Exception:  # pylint: disable=broad-except
        return False
