#!/venv/bin/python
"""setup_cmd: nothing is built or installed; verify that what the checks need is importable offline."""
import importlib
import os
import sys

sys.path.insert(0, os.environ.get("VERIF_REPO", "/repo"))
missing = []
for m in ("spsdk", "filelock", "serial", "libusbsio", "cryptography", "yaml"):
    try:
        importlib.import_module(m)
    except Exception as exc:  # pylint: disable=broad-except
        missing.append(f"{m}: {exc}")
import spsdk

print("spsdk from", spsdk.__file__)
os.makedirs(os.path.join(os.path.dirname(os.path.abspath(__file__)), "evidence"), exist_ok=True)
os.makedirs(os.path.join(os.path.dirname(os.path.abspath(__file__)), "replays"), exist_ok=True)
if missing:
    print("MISSING:", missing)
    sys.exit(1)
print("setup ok")
