"""Independent model of the SB2.0 / SB2.1 ROM loader (written from the format description, DESIGN.md appendix A).

Uses `cryptography` directly; nothing from spsdk is imported here. Validated at start-up on files produced
by elftosb (golden/sb2).
"""
from __future__ import annotations

import hashlib
import hmac as _hmac
import struct

from cryptography import x509
from cryptography.exceptions import InvalidSignature
from cryptography.hazmat.primitives import hashes
from cryptography.hazmat.primitives.asymmetric import padding
from cryptography.hazmat.primitives.ciphers import Cipher, algorithms, modes
from cryptography.hazmat.primitives.keywrap import InvalidUnwrap, aes_key_unwrap


class RomReject(Exception):
    def __init__(self, stage: str, msg: str) -> None:
        super().__init__(f"{stage}: {msg}")
        self.stage = stage


def hm(key: bytes, data: bytes) -> bytes:
    return _hmac.new(key, data, hashlib.sha256).digest()


def crc32_mpeg(data: bytes) -> int:
    c = 0xFFFFFFFF
    for b in data:
        c ^= b << 24
        for _ in range(8):
            c = ((c << 1) ^ 0x04C11DB7) & 0xFFFFFFFF if c & 0x80000000 else (c << 1) & 0xFFFFFFFF
    return c


_CRC_T = []
for _i in range(256):
    _c = _i << 24
    for _ in range(8):
        _c = ((_c << 1) ^ 0x04C11DB7) & 0xFFFFFFFF if _c & 0x80000000 else (_c << 1) & 0xFFFFFFFF
    _CRC_T.append(_c)


def crc32m(data: bytes) -> int:
    c = 0xFFFFFFFF
    for b in data:
        c = ((c << 8) & 0xFFFFFFFF) ^ _CRC_T[((c >> 24) ^ b) & 0xFF]
    return c


def ctr_block(nonce: bytes, blk: int) -> bytes:
    c = (int.from_bytes(nonce[12:], "little") + blk) & 0xFFFFFFFF
    return nonce[:12] + c.to_bytes(4, "little")


def ctr_crypt(dek: bytes, nonce: bytes, data: bytes, file_off: int) -> bytes:
    """AES-CTR where the counter block of each 16-byte block is the nonce with its last word increased by the
    block index measured from the file start (each block starts a fresh CTR stream at that value)."""
    out = bytearray()
    for i in range(0, len(data), 16):
        e = Cipher(algorithms.AES(dek), modes.CTR(ctr_block(nonce, (file_off + i) // 16))).encryptor()
        out += e.update(data[i : i + 16])
    return bytes(out)


HDR_FMT = "<16s4s4s2BH4I4H4sQ12HI4s"


def bcd_str(words) -> str:
    def sw(v):
        return ((v >> 8) | (v << 8)) & 0xFFFF

    return ".".join(f"{sw(w):X}" for w in words)


def parse_commands(stream: bytes) -> list:
    cmds = []
    o = 0
    while o < len(stream):
        h = stream[o : o + 16]
        if len(h) < 16:
            raise RomReject("command", "truncated command header")
        cs, tag, flags, addr, cnt, dat = struct.unpack("<2BH3L", h)
        if (0x5A + sum(h[1:])) & 0xFF != cs:
            raise RomReject("command", f"command checksum at {o}")
        o += 16
        memid = ((flags >> 8) & 0xFF) | (((flags >> 4) & 0xF) << 8)
        if tag == 0:
            cmds.append(("nop",))
        elif tag == 2:
            n = (cnt + 15) // 16 * 16
            payload = stream[o : o + n]
            if len(payload) != n:
                raise RomReject("command", "load data runs past the section")
            if crc32m(payload) != dat:
                raise RomReject("command", "load CRC")
            o += n
            cmds.append(("load", addr, cnt, payload[:cnt], memid))
        elif tag == 3:
            cmds.append(("fill", addr, cnt, dat))
        elif tag == 4:
            cmds.append(("jump", addr, dat, cnt if flags & 2 else None))
        elif tag == 5:
            cmds.append(("call", addr, dat))
        elif tag == 7:
            cmds.append(("erase", addr, cnt, flags & 0xF, memid))
        elif tag == 8:
            cmds.append(("reset",))
        elif tag == 9:
            cmds.append(("mem_enable", addr, cnt, memid))
        elif tag == 0xA:
            cmds.append(("prog", addr, cnt, dat, (flags >> 8) & 0xFF, flags & 1))
        elif tag == 0xB:
            cmds.append(("version_check", addr, cnt))
        elif tag == 0xC:
            cmds.append(("keystore_to_nv", addr, (flags >> 8) & 0xFF))
        elif tag == 0xD:
            cmds.append(("keystore_from_nv", addr, (flags >> 8) & 0xFF))
        else:
            raise RomReject("command", f"unknown command tag {tag}")
    return cmds


class Rom2:
    def __init__(self, kek: bytes, rkth: bytes | None = None) -> None:
        self.kek = kek
        self.rkth = rkth  # SHA-256 of the RKH table the device is provisioned with (None: not checked)

    def section(self, f: bytes, off: int, dek: bytes, mac: bytes, nonce: bytes, limit: int):
        if off + 48 > limit:
            raise RomReject("section", "section header outside the image")
        eh = f[off : off + 16]
        if hm(mac, eh) != f[off + 16 : off + 48]:
            raise RomReject("section", "section header HMAC")
        hd = ctr_crypt(dek, nonce, eh, off)
        cs, tag, flags, uid, blocks, nmac = struct.unpack("<2BH3L", hd)
        if (0x5A + sum(hd[1:])) & 0xFF != cs or tag != 1:
            raise RomReject("section", "boot tag checksum / tag")
        if nmac < 1 or nmac > blocks:
            raise RomReject("section", f"HMAC count {nmac} for {blocks} blocks")
        tab = f[off + 48 : off + 48 + 32 * nmac]
        body_off = off + 48 + 32 * nmac
        body = f[body_off : body_off + 16 * blocks]
        if body_off + 16 * blocks > limit or len(body) != 16 * blocks:
            raise RomReject("section", "section body outside the image")
        per = (blocks // nmac) * 16
        p = 0
        for i in range(nmac):
            chunk = body[p:] if i == nmac - 1 else body[p : p + per]
            if hm(mac, chunk) != tab[32 * i : 32 * i + 32]:
                raise RomReject("section", f"HMAC table entry {i}")
            p += len(chunk)
        plain = ctr_crypt(dek, nonce, body, body_off)
        cmds = parse_commands(plain)
        return {"uid": uid, "flags": flags, "hmac_count": nmac, "blocks": blocks, "commands": cmds, "offset": off, "body_offset": body_off, "plain": plain}, body_off + 16 * blocks

    def cert_block(self, cb: bytes):
        if len(cb) < 32:
            raise RomReject("cert-block", "truncated")
        sig, hmaj, hmin, hl, cflags, bn, il, cc, ctl = struct.unpack_from("<4s2H6I", cb)
        if sig != b"cert" or hl != 32:
            raise RomReject("cert-block", "header")
        if not 1 <= cc <= 4:
            raise RomReject("cert-block", f"certificate count {cc}")
        o = 32
        certs = []
        for _ in range(cc):
            if o + 4 > len(cb):
                raise RomReject("cert-block", "truncated table")
            (ln,) = struct.unpack_from("<I", cb, o)
            der = cb[o + 4 : o + 4 + ln]
            if len(der) != ln or ln < 4:
                raise RomReject("cert-block", "truncated certificate")
            dl = 4 + int.from_bytes(der[2:4], "big") if der[1] == 0x82 else 2 + der[1]
            try:
                certs.append(x509.load_der_x509_certificate(der[:dl]))
            except Exception as exc:  # pylint: disable=broad-except
                raise RomReject("cert-block", f"certificate does not parse: {exc}") from exc
            o += 4 + ln
        if o - 32 != ctl:
            raise RomReject("cert-block", "certificate table length")
        rkh = cb[o : o + 128]
        if len(rkh) != 128:
            raise RomReject("cert-block", "truncated RKH table")
        o += 128
        # chain: the first certificate is a root (its key hash is in the table), each next one is signed by its parent
        try:
            return self._chain(certs, rkh, o, il, bn, cflags)
        except RomReject:
            raise
        except Exception as exc:  # pylint: disable=broad-except
            # a damaged certificate may parse as DER and still be unusable (unknown key type, bad key data ...)
            raise RomReject("cert-block", f"unusable certificate: {type(exc).__name__}") from exc

    def _chain(self, certs, rkh, o, il, bn, cflags):
        n = certs[0].public_key().public_numbers()
        rk = hashlib.sha256(n.n.to_bytes((n.n.bit_length() + 7) // 8, "big") + n.e.to_bytes((n.e.bit_length() + 7) // 8, "big")).digest()
        if rk not in [rkh[i : i + 32] for i in range(0, 128, 32)]:
            raise RomReject("cert-block", "root key hash not in the RKH table")
        if self.rkth is not None and hashlib.sha256(rkh).digest() != self.rkth:
            raise RomReject("cert-block", "RKH table hash differs from the provisioned one")
        for parent, child in zip(certs, certs[1:]):
            try:
                parent.public_key().verify(child.signature, child.tbs_certificate_bytes, padding.PKCS1v15(), child.signature_hash_algorithm)
            except InvalidSignature as exc:
                raise RomReject("cert-block", "certificate chain") from exc
        return {"certs": certs, "size": o, "image_length": il, "build_number": bn, "flags": cflags, "rkh": rkh}

    def load(self, f: bytes) -> dict:
        if len(f) < 208:
            raise RomReject("header", "file shorter than header + key blob")
        (nonce, _pad, s1, maj, mnr, flags, iblk, fbtb, fbsid, ocb, hblk, kbb, kbbc, msmc, s2, ts, *ver) = struct.unpack_from(HDR_FMT, f)
        if s1 != b"STMP" or s2 != b"sgtl":
            raise RomReject("header", "signatures")
        if maj != 2 or mnr not in (0, 1):
            raise RomReject("header", f"version {maj}.{mnr}")
        if hblk != 6 or kbb != 8 or kbbc != 5:
            raise RomReject("header", "header / key blob block fields")
        if iblk * 16 > len(f):
            raise RomReject("header", f"image_blocks {iblk} exceed the file ({len(f)} bytes)")
        try:
            km = aes_key_unwrap(self.kek, f[128 : 128 + 72])
        except InvalidUnwrap as exc:
            raise RomReject("key-blob", "key blob does not unwrap with the device KEK") from exc
        dek, mac = km[:32], km[32:]
        info = {
            "version": f"{maj}.{mnr}", "flags": flags, "image_blocks": iblk, "first_boot_tag_block": fbtb, "first_boot_section_id": fbsid,
            "offset_to_certificate_block": ocb, "max_section_mac_count": msmc, "timestamp": ts, "product_version": bcd_str(ver[0:6:2]),
            "component_version": bcd_str(ver[6:12:2]), "build_number": ver[12], "nonce": nonce, "dek": dek, "mac": mac,
        }
        secs = []
        if mnr == 1:
            if ocb != 208:
                raise RomReject("header", f"offset to certificate block {ocb}")
            cb = self.cert_block(f[ocb:])
            end_cb = ocb + cb["size"]
            end_cb = (end_cb + 15) // 16 * 16
            sha = b""
            if flags & 0x8000:
                sha = f[end_cb : end_cb + 32]
                end_cb += 32
            pub = cb["certs"][-1].public_key()
            siglen = pub.key_size // 8
            try:
                pub.verify(f[end_cb : end_cb + siglen], f[:end_cb], padding.PKCS1v15(), hashes.SHA256())
            except (InvalidSignature, ValueError) as exc:
                raise RomReject("signature", "signature over header, key blob and certificate block") from exc
            off = end_cb + siglen
            if off != fbtb * 16:
                raise RomReject("header", f"first boot tag block {fbtb} but sections start at {off}")
            if len(f) != iblk * 16:
                raise RomReject("length", f"file has {len(f)} bytes, image_blocks says {iblk * 16}")
            if sha and hashlib.sha256(f[off:]).digest() != sha:
                raise RomReject("sha", "SHA-256 of the boot sections")
            if cb["image_length"] != end_cb:
                # elftosb: the certificate block header announces the number of signed bytes (incl. the SHA-256 if present)
                info["cert_image_length_mismatch"] = (cb["image_length"], end_cb)
            first = True
            total_mac = 0
            while off < len(f):
                s, noff = self.section(f, off, dek, mac, nonce, len(f))
                if first:
                    if hm(mac, f[off + 16 : off + 48 + 32 * s["hmac_count"]]) != f[96:128]:
                        raise RomReject("header-hmac", "header HMAC over the first section's HMAC area")
                    if s["uid"] != fbsid:
                        raise RomReject("header", "first boot section id")
                    first = False
                total_mac += s["hmac_count"]
                secs.append(s)
                off = noff
            info["cert"] = cb
            info["cert_raw"] = bytes(f[ocb : ocb + cb["size"]])
            info["mac_total"] = total_mac
        else:
            if hm(mac, f[:96]) != f[96:128]:
                raise RomReject("header-hmac", "header HMAC")
            off = 208
            limit = iblk * 16
            signed = flags == 0x8
            if flags not in (0x4, 0x8):
                raise RomReject("header", f"flags {flags:#x}")
            total_mac = 0
            if signed:
                eh = f[off : off + 16]
                if hm(mac, eh) != f[off + 16 : off + 48]:
                    raise RomReject("cert-section", "header HMAC")
                hd = ctr_crypt(dek, nonce, eh, off)
                cs, tag, sflags, uid, blocks, nmac = struct.unpack("<2BH3L", hd)
                if (0x5A + sum(hd[1:])) & 0xFF != cs or tag != 1:
                    raise RomReject("cert-section", "tag")
                body = f[off + 80 : off + 80 + 16 * blocks]
                if hm(mac, body) != f[off + 48 : off + 80]:
                    raise RomReject("cert-section", "HMAC")
                if ocb != off + 80:
                    raise RomReject("header", "offset to certificate block")
                cb = self.cert_block(body)
                info["cert"] = cb
                off += 80 + 16 * blocks
                total_mac += 1
                pub = cb["certs"][-1].public_key()
                siglen = pub.key_size // 8
                if len(f) != limit + siglen:
                    raise RomReject("length", f"file has {len(f)} bytes, image + signature is {limit + siglen}")
                try:
                    pub.verify(f[limit:], f[:limit], padding.PKCS1v15(), hashes.SHA256())
                except InvalidSignature as exc:
                    raise RomReject("signature", "signature over the image") from exc
            elif len(f) != limit:
                raise RomReject("length", f"file has {len(f)} bytes, image_blocks says {limit}")
            if off != fbtb * 16:
                raise RomReject("header", f"first boot tag block {fbtb} but sections start at {off}")
            first = True
            while off < limit:
                s, noff = self.section(f, off, dek, mac, nonce, limit)
                if first and s["uid"] != fbsid:
                    raise RomReject("header", "first boot section id")
                first = False
                total_mac += s["hmac_count"]
                secs.append(s)
                off = noff
            info["mac_total"] = total_mac
        if not secs:
            raise RomReject("section", "no boot section")
        info["sections"] = secs
        return info
