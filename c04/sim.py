"""C04 — SB2.0 / SB2.1: provisioning session, independent ROM-loader model and SPSDK's own parser under storage faults."""
from __future__ import annotations

import copy
import hashlib
import os
import random
import struct

from simkit.core import VERIF_DIR, EventLog, HarnessError, ddmin_lists, digest
from simkit.simtime import CLOCK, EPOCH

PROP = "C04"
ISOLATE_RUNS = True  # every run in a forked copy of the worker (simkit.core.run_one)
LEVEL = "exploration"
BUDGET_S = {"quick": 420, "thorough": 1800}
CHUNK = 10
RULE = (
    "each run = one SB2.0 (unsigned / signed) or SB2.1 image built through the Python API: 1..4 sections with arbitrary "
    "ids and HMAC-table sizes, command sequences over all 13 SB2 command types with boundary field values and load data "
    "of every length mod 16, versions, build number, SHA flag, explicit or self-chosen DEK/MAC/nonce/timestamp, RSA-2048 / "
    "4096 roots (1 or 4 in the RKH table); consumers: the independent ROM-loader model and SPSDK's own parse(). Then "
    "storage faults between writer and consumers (bit flip biased to structure boundaries, truncation, wrong KEK, torn "
    "replacement) and deliveries over the simulated link with link faults. control_runs = no fault (generated inputs "
    "against a reference model), faulted_runs = >=1 storage or link fault. Non-trivial = >=2 commands or a fault; distinct "
    "= distinct (image-parameter signature, fault signature, command-shape signature) triples counted with a set."
)
COMPONENTS = {
    "real": ["spsdk.sbfile.sb2.images.BootImageV20 / BootImageV21 (export and parse)", "spsdk.sbfile.sb2.sections.BootSectionV2 / CertSectionV2", "spsdk.sbfile.sb2.commands (13 command classes)", "spsdk.sbfile.sb2.headers.ImageHeaderV2", "spsdk.utils.crypto.cert_blocks.CertBlockV1", "spsdk.crypto.symmetric (Counter, key wrap)", "McuBoot.receive_sb_file + protocol + device classes (as C10)"],
    "stub": ["ROM loader (independent model c04/rom2.py, validated on elftosb-made files in golden/sb2)", "bootloader device and link (C10 models)", "clock"],
}
MEASURES = {"distinct_schedules": "distinct image-parameter signatures (version, signing, key, SHA flag, explicit parameters, section geometry)", "distinct_states": "not measured (0)", "sim_time_s": "simulated time incl. link deliveries"}
ASSUMPTIONS = [
    "the ROM-loader model is written from the SB2 format description and must accept the elftosb-made reference files under golden/sb2 before any run counts",
    "sections are decoded up to image_blocks regardless of the LAST flag (SPSDK and elftosb set it on every section)",
    "RSA signature bytes are deterministic (PKCS#1 v1.5) but padding bytes are drawn from the simulated entropy-free OS RNG; digests cover decoded content, not raw bytes",
]

GOLDEN = os.path.join(VERIF_DIR, "golden")
GOLDEN_KEK0 = bytes.fromhex("AC701E99BD3492E419B756EADC0985B3D3D0BC0FDB6B057AA88252204C2DA732")
S = None
_VALIDATED = False


def worker_init() -> None:
    global S
    if S is not None:
        return
    from c10 import sim as c10sim

    c10sim.worker_init()

    class NS:
        pass

    S = NS()
    from spsdk.crypto.certificate import Certificate
    from spsdk.crypto.signature_provider import PlainFileSP
    from spsdk.exceptions import SPSDKError
    from spsdk.mboot.memories import ExtMemId
    from spsdk.sbfile.sb2 import commands as cmds
    from spsdk.sbfile.sb2.images import BootImageV20, BootImageV21, SBV2xAdvancedParams
    from spsdk.sbfile.sb2.sections import BootSectionV2
    from spsdk.utils.crypto.cert_blocks import CertBlockV1

    S.Certificate = Certificate
    S.PlainFileSP = PlainFileSP
    S.SPSDKError = SPSDKError
    S.ExtMemId = ExtMemId
    S.cmds = cmds
    S.BootImageV20 = BootImageV20
    S.BootImageV21 = BootImageV21
    S.SBV2xAdvancedParams = SBV2xAdvancedParams
    S.BootSectionV2 = BootSectionV2
    S.CertBlockV1 = CertBlockV1
    S.c10 = c10sim
    validate_model()
    # runs are executed in forked copies of this process: initialise everything that is lazy on first use here
    for i, fam in ((0, "control"), (1, "faulted"), (2, "faulted"), (3, "control"), (4, "faulted"), (5, "faulted")):
        Run(gen_plan(fam, i, random.Random(2000 + i), "quick")).execute()
    CLOCK.reset()


def validate_model() -> None:
    global _VALIDATED
    if _VALIDATED:
        return
    from c04.rom2 import Rom2, RomReject

    d = os.path.join(GOLDEN, "sb2")
    n = 0
    puf_kek = bytes.fromhex(open(os.path.join(d, "kek_puf.txt")).read().strip())
    for fn in sorted(os.listdir(d)):
        if not fn.endswith((".sb2", ".sb2x")):
            continue
        f = open(os.path.join(d, fn), "rb").read()
        GOLDEN_KEK = puf_kek if fn.endswith(".sb2x") else GOLDEN_KEK0
        try:
            res = Rom2(GOLDEN_KEK).load(f)
            if res.get("cert_image_length_mismatch"):
                raise HarnessError(f"ROM model disagrees with elftosb about the certificate block image length of {fn}: {res['cert_image_length_mismatch']}")
        except RomReject as exc:
            raise HarnessError(f"ROM model rejects elftosb reference file {fn}: {exc}") from exc
        if not res["sections"] or not res["sections"][0]["commands"]:
            raise HarnessError(f"ROM model decoded nothing from {fn}")
        signed = res["flags"] != 0x4
        for pos in (3, 100, 130, 215, len(f) // 2, len(f) - 3):
            g = bytearray(f)
            g[pos] ^= 0x04
            try:
                Rom2(GOLDEN_KEK).load(bytes(g))
            except RomReject:
                continue
            if signed:
                raise HarnessError(f"ROM model accepts {fn} with byte {pos} corrupted")
        try:
            Rom2(bytes(32)).load(f)
        except RomReject:
            pass
        else:
            raise HarnessError(f"ROM model accepts {fn} with a wrong KEK")
        n += 1
    if n < 8:
        raise HarnessError("elftosb reference files missing")
    _VALIDATED = True


def gen_bytes(seed: int, n: int) -> bytes:
    out = bytearray()
    i = 0
    while len(out) < n:
        out += hashlib.sha256(b"c04:%d:%d" % (seed, i)).digest()
        i += 1
    return bytes(out[:n])


def fill_word(pattern: int) -> int:
    """The word a fill pattern of 1, 2 or 4 bytes expands to (BD semantics: the pattern's width follows its value)."""
    if pattern < 0x100:
        b = pattern.to_bytes(1, "big") * 4
    elif pattern < 0x10000:
        b = pattern.to_bytes(2, "big") * 2
    else:
        b = pattern.to_bytes(4, "big")
    return int.from_bytes(b, "big")


def make_cmd(c: dict):
    """plan spec -> (SPSDK command, tuple the ROM model must decode)."""
    K = S.cmds
    t = c["t"]
    if t == "load":
        data = gen_bytes(c["s"], c["l"])
        if c.get("ba"):
            # the caller hands over a buffer it goes on using (a readinto() chunk loop): what counts is its content at the
            # time it was given to the builder
            buf = bytearray(data)
            cmd = K.CmdLoad(c["a"], buf, c["m"])
            for j in range(0, len(buf), 3):
                buf[j] ^= 0xA5
            return cmd, ("load", c["a"], c["l"], data, c["m"] & 0xFFF)
        return K.CmdLoad(c["a"], data, c["m"]), ("load", c["a"], c["l"], data, c["m"] & 0xFFF)
    if t == "fill":
        return K.CmdFill(c["a"], c["p"], c["l"]), ("fill", c["a"], c["l"], fill_word(c["p"]))
    if t == "jump":
        return K.CmdJump(c["a"], c["arg"], c.get("sp")), ("jump", c["a"], c["arg"], c.get("sp"))
    if t == "call":
        return K.CmdCall(c["a"], c["arg"]), ("call", c["a"], c["arg"])
    if t == "erase":
        return K.CmdErase(c["a"], c["l"], c["f"], c["m"]), ("erase", c["a"], c["l"], c["f"], c["m"] & 0xFFF)
    if t == "reset":
        return K.CmdReset(), ("reset",)
    if t == "nop":
        return K.CmdNop(), ("nop",)
    if t == "mem_enable":
        return K.CmdMemEnable(c["a"], c["l"], c["m"]), ("mem_enable", c["a"], c["l"], c["m"] & 0xFFF)
    if t == "prog":
        return K.CmdProg(c["a"], c["m"], c["w1"], c["w2"]), ("prog", c["a"], c["w1"], c["w2"], c["m"], 1 if c["w2"] else 0)
    if t == "version_check":
        return K.CmdVersionCheck(K.VersionCheckType.from_tag(c["k"]), c["v"]), ("version_check", c["k"], c["v"])
    if t in ("keystore_to_nv", "keystore_from_nv"):
        cls = K.CmdKeyStoreRestore if t == "keystore_to_nv" else K.CmdKeyStoreBackup
        return cls(c["a"], S.ExtMemId.from_tag(c["m"])), (t, c["a"], c["m"])
    raise HarnessError(f"command spec {c}")


# ----------------------------------------------------------------------------------------------
# the BD-file route (what `nxpimage sb21 export` does): plan spec -> (BD statement, tuple the ROM model must decode).
# Expectations follow the elftosb user's guide and the elftosb-made reference files (golden/sb2, decoded by the ROM
# model): a binary blob is loaded byte for byte, `a..b` is a range, `section (N)` carries identifier N.


def _bd_mem(m: int) -> str:
    return f"@{m:#x} " if m else ""


def make_bd_stmt(c: dict, td: str, idx: int, sources: dict):
    t = c["t"]
    if t == "load":
        data = gen_bytes(c["s"], c["l"])
        if c.get("form") == "blob" and c["l"] == 4:
            return f"load {_bd_mem(c['m'])}{{{{ {' '.join('%02x' % b for b in data)} }}}} > {c['a']:#x};", ("load", c["a"], 4, data, c["m"] & 0xFFF)
        name = f"src{idx}"
        with open(os.path.join(td, name + ".bin"), "wb") as f:
            f.write(data)
        sources[name] = name + ".bin"
        return f"load {_bd_mem(c['m'])}{name} > {c['a']:#x};", ("load", c["a"], c["l"], data, c["m"] & 0xFFF)
    if t == "fill":
        if c["l"] == 4 and not c.get("range"):
            return f"load {c['p']:#010x} > {c['a']:#x};", ("fill", c["a"], 4, c["p"])
        return f"load {c['p']:#010x} > {c['a']:#x}..{c['a'] + c['l']:#x};", ("fill", c["a"], c["l"], c["p"])
    if t == "jump":
        arg = f" ({c['arg']:#x})" if c["arg"] or c.get("explicit_arg") else ""
        if c.get("sp") is not None:
            return f"jump_sp {c['sp']:#x} {c['a']:#x}{arg};", ("jump", c["a"], c["arg"], c["sp"])
        return f"jump {c['a']:#x}{arg};", ("jump", c["a"], c["arg"], None)
    if t == "erase":
        if c["f"]:
            word = "unsecure all" if c["f"] == 2 else "all"
            return f"erase {_bd_mem(c['m'])}{word};", ("erase", 0, 0, c["f"], c["m"] & 0xFFF)
        return f"erase {_bd_mem(c['m'])}{c['a']:#x}..{c['a'] + c['l']:#x};", ("erase", c["a"], c["l"], 0, c["m"] & 0xFFF)
    if t == "mem_enable":
        return f"enable @{c['m']:#x} {c['a']:#x};", ("mem_enable", c["a"], 4, c["m"] & 0xFFF)
    if t == "prog":
        if c.get("form") == "blob":
            blob = struct.pack("<I", c["w1"]) + (struct.pack("<I", c["w2"]) if c["w2"] else b"")
            return f"load {c.get('kw', 'fuse')} {{{{ {' '.join('%02x' % b for b in blob)} }}}} > {c['a']:#x};", ("prog", c["a"], c["w1"], c["w2"], 4, 1 if c["w2"] else 0)
        return f"load {c.get('kw', 'fuse')} {c['w1']:#x} > {c['a']:#x};", ("prog", c["a"], c["w1"], 0, 4, 0)
    if t == "version_check":
        return f"version_check {'sec' if c['k'] == 0 else 'nsec'} {c['v']:#x};", ("version_check", c["k"], c["v"])
    if t in ("keystore_to_nv", "keystore_from_nv"):
        return f"{t} @{c['m']} {c['a']:#x};", (t, c["a"], c["m"])
    raise HarnessError(f"no BD form for {c}")


def make_yaml_cmd(c: dict, td: str, idx: int):
    """The same statement as a record of the YAML form of the SB2.1 configuration (keys as the BD compiler emits them)."""
    t = c["t"]

    def opt(d: dict, key: str, m: int) -> dict:
        if m:
            d[key] = m
        return d

    if t == "load":
        data = gen_bytes(c["s"], c["l"])
        if c.get("form") == "blob" and c["l"] == 4:
            return {"load": opt({"values": data.hex(), "address": c["a"]}, "load_opt", c["m"])}, ("load", c["a"], 4, data, c["m"] & 0xFFF)
        name = f"src{idx}.bin"
        with open(os.path.join(td, name), "wb") as f:
            f.write(data)
        return {"load": opt({"file": name, "address": c["a"]}, "load_opt", c["m"])}, ("load", c["a"], c["l"], data, c["m"] & 0xFFF)
    if t == "fill":
        d = {"pattern": c["p"], "address": c["a"]}
        if not (c["l"] == 4 and not c.get("range")):
            d["length"] = c["l"]
        return {"fill": d}, ("fill", c["a"], 4 if "length" not in d else c["l"], c["p"])
    if t == "jump":
        d = {"address": c["a"]}
        if c["arg"] or c.get("explicit_arg"):
            d["argument"] = c["arg"]
        if c.get("sp") is not None:
            d["spreg"] = c["sp"]
        return {"jump": d}, ("jump", c["a"], c["arg"], c.get("sp"))
    if t == "erase":
        if c["f"]:
            return {"erase": opt({"address": 0, "flags": c["f"]}, "mem_opt", c["m"])}, ("erase", 0, 0, c["f"], c["m"] & 0xFFF)
        return {"erase": opt({"address": c["a"], "length": c["l"]}, "mem_opt", c["m"])}, ("erase", c["a"], c["l"], 0, c["m"] & 0xFFF)
    if t == "mem_enable":
        return {"enable": {"mem_opt": c["m"], "address": c["a"]}}, ("mem_enable", c["a"], 4, c["m"] & 0xFFF)
    if t == "prog":
        if c.get("form") == "blob":
            blob = struct.pack("<I", c["w1"]) + (struct.pack("<I", c["w2"]) if c["w2"] else b"")
            return {"load": {"load_opt": c.get("kw", "fuse"), "values": blob.hex(), "address": c["a"]}}, ("prog", c["a"], c["w1"], c["w2"], 4, 1 if c["w2"] else 0)
        return {"load": {"load_opt": c.get("kw", "fuse"), "pattern": c["w1"], "address": c["a"]}}, ("prog", c["a"], c["w1"], 0, 4, 0)
    if t == "version_check":
        return {"version_check": {"ver_type": c["k"], "fw_version": c["v"]}}, ("version_check", c["k"], c["v"])
    if t in ("keystore_to_nv", "keystore_from_nv"):
        return {t: {"mem_opt": c["m"], "address": c["a"]}}, (t, c["a"], c["m"])
    raise HarnessError(f"no YAML form for {c}")


def spsdk_cmd_tuple(cmd) -> tuple:
    """What SPSDK's parser recovered, in the ROM model's vocabulary (through public attributes)."""
    K = S.cmds
    if isinstance(cmd, K.CmdLoad):
        return ("load", cmd.address, len(cmd.data), cmd.data, cmd.mem_id)
    if isinstance(cmd, K.CmdFill):
        return ("fill", cmd.address, cmd.header.count, int.from_bytes(cmd.pattern, "big"))
    if isinstance(cmd, K.CmdJump):
        return ("jump", cmd.address, cmd.argument, cmd.spreg)
    if isinstance(cmd, K.CmdCall):
        return ("call", cmd.address, cmd.argument)
    if isinstance(cmd, K.CmdErase):
        return ("erase", cmd.address, cmd.length, cmd.flags & 0xF, cmd.mem_id)
    if isinstance(cmd, K.CmdReset):
        return ("reset",)
    if isinstance(cmd, K.CmdNop):
        return ("nop",)
    if isinstance(cmd, K.CmdMemEnable):
        return ("mem_enable", cmd.address, cmd.size, cmd.mem_id)
    if isinstance(cmd, K.CmdProg):
        return ("prog", cmd.address, cmd.data_word1, cmd.data_word2, cmd.mem_id, cmd.is_eight_byte)
    if isinstance(cmd, K.CmdVersionCheck):
        return ("version_check", cmd.type.tag, cmd.version)
    if isinstance(cmd, K.CmdKeyStoreRestore):
        return ("keystore_to_nv", cmd.address, cmd.controller_id)
    if isinstance(cmd, K.CmdKeyStoreBackup):
        return ("keystore_from_nv", cmd.address, cmd.controller_id)
    return ("unknown", type(cmd).__name__)


def cmd_equal(got: tuple, want: tuple):
    """Returns None if equal, or (site, note). A LOAD whose only difference is a count padded to 16 with the
    given bytes as prefix is reported under its own site (so that other differences are not shadowed)."""
    if got == want:
        return None
    if got and want and got[0] == want[0] == "load" and want[2] == 4 and got[1] == want[1] and got[4] == want[4] and want[3] != want[3][::-1]:
        if bytes(got[3][:4]) == bytes(want[3][::-1]) and got[2] in (4, 16):
            return ("load:bd-blob-bytes-reversed", "a 4-byte binary blob of a BD load statement is written in reversed byte order (elftosb loads a blob byte for byte)")
    if got and want and got[0] == want[0] == "load":
        if got[1] == want[1] and got[4] == want[4] and got[3][: want[2]] == want[3]:
            if got[2] == (want[2] + 15) // 16 * 16 and got[2] != want[2]:
                return ("load:count-padded-to-16", f"LOAD of {want[2]} bytes is written as a LOAD of {got[2]} bytes ({got[2] - want[2]} filler bytes become part of the loaded data)")
    return (f"cmd:{(want or got)[0]}", f"decoded {_short(got)}, supplied {_short(want)}")


def _short(t):
    if t is None:
        return "nothing"
    return "(" + ", ".join((f"<{len(x)} bytes {hashlib.sha256(bytes(x)).hexdigest()[:8]}>" if isinstance(x, (bytes, bytearray)) else (hex(x) if isinstance(x, int) and not isinstance(x, bool) else repr(x))) for x in t) + ")"


# ----------------------------------------------------------------------------------------------


class Run:
    def __init__(self, plan: dict) -> None:
        self.plan = plan
        self.log = EventLog(keep=300)
        self.records: list = []
        self.faults: dict = {}
        self.probes: dict = {}
        self.obs: dict = {}
        self.trace: list = []
        self.section_offsets: list = []
        self.sections_plain: list = []

    def violation(self, oracle, site, msg, detail=None):
        self.records.append({"oracle": oracle, "site": site, "msg": msg, "detail": detail})
        self.log.add("violation", oracle, site)

    def fault(self, k, n=1):
        self.faults[k] = self.faults.get(k, 0) + n

    def probe(self, k, n=1):
        self.probes[k] = self.probes.get(k, 0) + n

    # -- build
    def build_from_bd(self):
        """SB2.1 the way `nxpimage sb21 export` builds it: BD file -> parse_sb21_config -> BootImageV21.load_from_config."""
        import tempfile

        p = self.plan
        self.kek = gen_bytes(p["kek_seed"], 32)
        if getattr(self, "td", None):
            td = self.td
        else:
            self.td = td = tempfile.mkdtemp(prefix="verif-c04-")
        adv = p.get("adv") or {}
        opts = [f"flags = {0x8 | (0x8000 if p.get('sha') else 0):#x};", f"buildNumber = {p['build']:#x};", f'productVersion = "{p["pv"]}";', f'componentVersion = "{p["cv"]}";', 'secureBinaryVersion = "2.1";']
        self.expected_ts = None
        if adv.get("dek") is not None:
            opts.append(f'dek = "{gen_bytes(adv["dek"], 32).hex()}";')
        if adv.get("mac") is not None:
            opts.append(f'mac = "{gen_bytes(adv["mac"] + 1000, 32).hex()}";')
        if adv.get("nonce") is not None:
            n = bytearray(gen_bytes(adv["nonce"] + 2000, 16))
            n[9] &= 0x7F
            n[13] &= 0x7F
            n[0] |= 0x10  # (the option is read back through an integer: keep the leading byte non-zero)
            if adv.get("nonce_high"):
                n[12:16] = (0xFFFFFFF0).to_bytes(4, "little")
            opts.append(f'nonce = "{bytes(n).hex()}";')
        if adv.get("timestamp") is not None:
            opts.append(f"timestamp = {adv['timestamp']};")
            self.expected_ts = (adv["timestamp"] - 946684800) * 1000000
        if adv.get("zero_padding"):
            opts.append("zeroPadding = True;")
        if self.expected_ts is None:
            self.expected_ts = (int(EPOCH + (CLOCK.now_us + CLOCK.wall_offset_us) / 1e6) - 946684800) * 1000000
        if p["via_bd"] == "yaml":
            return self.build_from_yaml(td, adv)
        sources: dict = {}
        body = []
        self.expected = []
        k = 0
        for s_ in p["sections"]:
            stmts = []
            exp = []
            for c in s_["cmds"]:
                st, tup = make_bd_stmt(c, td, k, sources)
                k += 1
                stmts.append("    " + st)
                exp.append(tup)
            body.append(f"section ({s_['uid']:#x}) {{\n" + "\n".join(stmts) + "\n}")
            self.expected.append((s_["uid"], exp))
        text = "options {\n" + "\n".join("    " + o for o in opts) + "\n}\nsources {\n" + "\n".join(f'    {n_} = "{f_}";' for n_, f_ in sorted(sources.items())) + "\n}\n" + "\n".join(body) + "\n"
        bd = os.path.join(td, "image.bd")
        with open(bd, "w") as f:
            f.write(text)
        with open(os.path.join(td, "kek.txt"), "w") as f:
            f.write(self.kek.hex())
        try:
            cfg = S.BootImageV21.parse_sb21_config(bd)
        except Exception as exc:  # pylint: disable=broad-except
            raise HarnessError(f"the generated BD file does not compile (BD compilation is not this property's subject): {type(exc).__name__}: {exc}\n{text}") from exc
        key = p["key"]
        kdir = os.path.join(GOLDEN, "keys")
        roots = [os.path.join(kdir, f"root_k{i}_signed_cert0_noca.der.cert") for i in range(key["nroots"])]
        cfg["mainCertPrivateKeyFile"] = os.path.join(kdir, f"k{key['used']}_cert0_2048.pem")
        img = S.BootImageV21.load_from_config(config=cfg, key_file_path=os.path.join(td, "kek.txt"), signing_certificate_file_paths=[roots[key["used"]]], root_key_certificate_paths=roots, rkth_out_path=os.path.join(td, "hash.bin"), search_paths=[td])
        self.signed = True
        table = bytearray(128)
        for i, path in enumerate(roots):
            nums = S.Certificate.load(path).cert.public_key().public_numbers()
            table[32 * i : 32 * i + 32] = hashlib.sha256(nums.n.to_bytes((nums.n.bit_length() + 7) // 8, "big") + nums.e.to_bytes((nums.e.bit_length() + 7) // 8, "big")).digest()
        self.rkth = hashlib.sha256(bytes(table)).digest()
        with open(os.path.join(td, "hash.bin"), "rb") as f:
            if f.read() != self.rkth:
                self.violation("rkth-output", "hash.bin", "the root-key-table hash written for fuse programming differs from the hash of the table as supplied")
        self.probe("built_from_bd_file")
        return img

    def build_from_yaml(self, td: str, adv: dict):
        """The YAML form of the same configuration (what `nxpimage sb21 convert` writes): validated against the schema
        by parse_sb21_config, then the same load_from_config."""
        import json

        p = self.plan
        opts: dict = {"flags": 0x8 | (0x8000 if p.get("sha") else 0), "buildNumber": p["build"], "productVersion": p["pv"], "componentVersion": p["cv"], "secureBinaryVersion": "2.1"}
        if adv.get("dek") is not None:
            opts["dek"] = gen_bytes(adv["dek"], 32).hex()
        if adv.get("mac") is not None:
            opts["mac"] = gen_bytes(adv["mac"] + 1000, 32).hex()
        if adv.get("nonce") is not None:
            n = bytearray(gen_bytes(adv["nonce"] + 2000, 16))
            n[9] &= 0x7F
            n[13] &= 0x7F
            n[0] |= 0x10
            if adv.get("nonce_high"):
                n[12:16] = (0xFFFFFFF0).to_bytes(4, "little")
            opts["nonce"] = bytes(n).hex()
        if adv.get("timestamp") is not None:
            opts["timestamp"] = adv["timestamp"]
        if adv.get("zero_padding"):
            opts["zeroPadding"] = True
        sections = []
        self.expected = []
        k = 0
        for s_ in p["sections"]:
            cmds = []
            exp = []
            for c in s_["cmds"]:
                rec, tup = make_yaml_cmd(c, td, k)
                k += 1
                cmds.append(rec)
                exp.append(tup)
            sections.append({"section_id": s_["uid"], "commands": cmds})
            self.expected.append((s_["uid"], exp))
        key = p["key"]
        kdir = os.path.join(GOLDEN, "keys")
        roots = [os.path.join(kdir, f"root_k{i}_signed_cert0_noca.der.cert") for i in range(key["nroots"])]
        cb_doc = {"mainRootCertId": key["used"], "imageBuildNumber": p["build"] & 0xFFFF}
        for i, r_ in enumerate(roots):
            cb_doc[f"rootCertificate{i}File"] = r_
        with open(os.path.join(td, "cert_block.yaml"), "w") as f:
            json.dump(cb_doc, f)
        cfg_doc = {"family": "rt5xx", "certBlock": "cert_block.yaml", "containerOutputFile": "out.sb2", "options": opts, "sections": sections, "mainRootCertId": key["used"], "containerKeyBlobEncryptionKey": "kek.txt", "signPrivateKey": os.path.join(kdir, f"k{key['used']}_cert0_2048.pem")}
        for i, r_ in enumerate(roots):
            cfg_doc[f"rootCertificate{i}File"] = r_
        path = os.path.join(td, "image.yaml")
        with open(path, "w") as f:
            json.dump(cfg_doc, f)  # (JSON is YAML)
        with open(os.path.join(td, "kek.txt"), "w") as f:
            f.write(self.kek.hex())
        try:
            cfg = S.BootImageV21.parse_sb21_config(path)
        except S.SPSDKError as exc:
            raise HarnessError(f"the generated YAML configuration was refused by the schema: {exc}") from exc
        img = S.BootImageV21.load_from_config(config=cfg, key_file_path=os.path.join(td, "kek.txt"), signing_certificate_file_paths=[roots[key["used"]]], root_key_certificate_paths=roots, rkth_out_path=os.path.join(td, "hash.bin"), search_paths=[td])
        self.signed = True
        table = bytearray(128)
        for i, pth in enumerate(roots):
            nums = S.Certificate.load(pth).cert.public_key().public_numbers()
            table[32 * i : 32 * i + 32] = hashlib.sha256(nums.n.to_bytes((nums.n.bit_length() + 7) // 8, "big") + nums.e.to_bytes((nums.e.bit_length() + 7) // 8, "big")).digest()
        self.rkth = hashlib.sha256(bytes(table)).digest()
        self.probe("built_from_yaml_file")
        return img

    def build(self):
        p = self.plan
        if p.get("via_bd"):
            return self.build_from_bd()
        self.kek = gen_bytes(p["kek_seed"], 32)
        adv = p.get("adv") or {}
        kw = {}
        self.expected_ts = None
        if adv:
            from datetime import datetime

            a = {}
            if adv.get("dek") is not None:
                a["dek"] = gen_bytes(adv["dek"], 32)
            if adv.get("mac") is not None:
                a["mac"] = gen_bytes(adv["mac"] + 1000, 32)
            if adv.get("nonce") is not None:
                n = bytearray(gen_bytes(adv["nonce"] + 2000, 16))
                n[9] &= 0x7F
                n[13] &= 0x7F
                if adv.get("nonce_high"):
                    n[12:16] = (0xFFFFFFF0).to_bytes(4, "little")  # counter word close to wrap-around
                a["nonce"] = bytes(n)
            if adv.get("timestamp") is not None and adv.get("tz_minutes") is not None:
                from datetime import timedelta, timezone

                # the same instant given as an aware datetime in another time zone
                a["timestamp"] = datetime.fromtimestamp(adv["timestamp"], tz=timezone(timedelta(minutes=adv["tz_minutes"])))
                self.expected_ts = (adv["timestamp"] - 946684800) * 1000000
            elif adv.get("timestamp") is not None:
                a["timestamp"] = datetime.fromtimestamp(adv["timestamp"])
                self.expected_ts = (adv["timestamp"] - 946684800) * 1000000
            if adv.get("zero_padding"):
                a["padding"] = bytes(8)
            kw["advanced_params"] = S.SBV2xAdvancedParams(**a)
        if self.expected_ts is None:
            self.expected_ts = (int(EPOCH + (CLOCK.now_us + CLOCK.wall_offset_us) / 1e6) - 946684800) * 1000000
        sections = []
        self.expected = []
        for s in p["sections"]:
            cmds = []
            exp = []
            for c in s["cmds"]:
                cmd, tup = make_cmd(c)
                cmds.append(cmd)
                exp.append(tup)
            sections.append(S.BootSectionV2(s["uid"], *cmds, hmac_count=s["hmac_count"]))
            self.expected.append((s["uid"], exp))
        # the sections are edited after they were put together (public item assignment, append, attribute setters):
        # the file must carry them as they stand at export time
        for e in p.get("edits") or []:
            si = e["s"] % len(sections)
            sec = sections[si]
            uid, exp = self.expected[si]
            kind = e["e"]
            if kind == "replace" and len(sec):
                ci = e["c"] % len(sec)
                cmd, tup = make_cmd(e["cmd"])
                sec[ci] = cmd
                exp[ci] = tup
            elif kind == "append":
                cmd, tup = make_cmd(e["cmd"])
                sec.append(cmd)
                exp.append(tup)
            elif kind == "set_data" and len(sec):
                loads = [ci for ci in range(len(sec)) if exp[ci][0] == "load"]
                if loads:
                    ci = loads[e["c"] % len(loads)]
                    data = gen_bytes(e["seed"], e["len"])
                    sec[ci].data = data
                    exp[ci] = ("load", exp[ci][1], len(data), data, exp[ci][4])
            elif kind == "set_uid" and p["version"] == "2.1":
                sec.uid = e["uid"]
                self.expected[si] = (e["uid"], exp)
            self.probe("section_edited_after_build:" + kind)
        common = dict(product_version=p["pv"], component_version=p["cv"], build_number=p["build"], **kw)
        key = p["key"]
        if p["version"] == "2.0":
            img = S.BootImageV20(p["signed"], self.kek, *sections, **common)
        else:
            flags = 0x8 | (0x8000 if p.get("sha") else 0)
            img = S.BootImageV21(self.kek, *sections, flags=flags, **common)
        self.signed = p["version"] == "2.1" or p["signed"]
        self.rkth = None
        if self.signed:
            cb = S.CertBlockV1(build_number=p["build"])
            kdir = os.path.join(GOLDEN, "keys")
            self.supplied_roots = []
            if p.get("attach_early") and p["version"] == "2.1":
                # the (still empty) certificate block is attached first and filled afterwards: the file is made at export
                img.cert_block = cb
                self.probe("cert_block_attached_before_it_was_filled")
            if key["kind"] == "self":
                cert = S.Certificate.load(os.path.join(kdir, "rsa", f"selfsign_{key['bits']}_v3.der.crt"))
                cb.set_root_key_hash(key.get("slot", 0), cert.public_key_hash())
                self.supplied_roots.append((key.get("slot", 0), cert))
                cb.add_certificate(cert)
                pk = os.path.join(kdir, "rsa", f"selfsign_privatekey_rsa{key['bits']}.pem")
            elif key["kind"] == "chain3":
                # root CA -> intermediate CA -> leaf; the image is signed with the leaf's key
                chain = [S.Certificate.load(os.path.join(kdir, "chain", n)) for n in ("root_cert_0_ca_v3.der.crt", "chain_cert_0_v3.der.crt", "chain_cert_1_v3.der.crt")][: key.get("depth", 3)]
                cb.set_root_key_hash(key.get("slot", 0), chain[0].public_key_hash())
                self.supplied_roots.append((key.get("slot", 0), chain[0]))
                for c in chain:
                    cb.add_certificate(c)
                pk = os.path.join(kdir, "chain", "chain_cert_1_pkey_rsa4096.pem")
            else:
                certs = [S.Certificate.load(os.path.join(kdir, f"root_k{i}_signed_cert0_noca.der.cert")) for i in range(4)]
                slots = key.get("slots") or list(range(key["nroots"]))
                order = list(slots)
                if key.get("reverse_order"):
                    order.reverse()  # the order of the calls must not matter
                for i in order:
                    cb.set_root_key_hash(i, certs[i].public_key_hash())
                    self.supplied_roots.append((i, certs[i]))
                cb.add_certificate(certs[key["used"]])
                pk = os.path.join(kdir, f"k{key['used']}_cert0_2048.pem")
            if not (p.get("attach_early") and p["version"] == "2.1"):
                img.cert_block = cb
            img.signature_provider = S.PlainFileSP(pk)
            # the device is provisioned with the hash of the table *as supplied*: each root key hash in the slot it was given
            table = bytearray(128)
            for slot, cert in self.supplied_roots:
                nums = cert.cert.public_key().public_numbers()
                h = hashlib.sha256(nums.n.to_bytes((nums.n.bit_length() + 7) // 8, "big") + nums.e.to_bytes((nums.e.bit_length() + 7) // 8, "big")).digest()
                table[32 * slot : 32 * slot + 32] = h
            self.rkth = hashlib.sha256(bytes(table)).digest()
        return img

    def rom(self, kek=None):
        from c04.rom2 import Rom2

        return Rom2(kek or self.kek, self.rkth)

    # -- consumers
    def rom_content(self, data: bytes, kek=None):
        res = self.rom(kek).load(data)
        return res, [(s["uid"], s["commands"]) for s in res["sections"]]

    def spsdk_content(self, data: bytes, kek=None):
        p = self.plan
        k = kek or self.kek
        img = S.BootImageV20.parse(data, kek=k) if p["version"] == "2.0" else S.BootImageV21.parse(data, kek=k)
        secs = []
        for sec in img:
            secs.append((sec.uid, [spsdk_cmd_tuple(c) for c in sec]))
        hdr = {"product_version": str(img.header.product_version), "component_version": str(img.header.component_version), "build_number": img.header.build_number}
        # further header content a caller of the parser reads: time stamp, flags, and the certificate block of a signed file
        hdr["timestamp"] = str(getattr(img.header, "timestamp", None))
        hdr["flags"] = getattr(img.header, "flags", None)
        cbk = getattr(img, "cert_block", None)
        if cbk is not None:
            hdr["cert_block_rkth"] = bytes(cbk.rkth).hex()
            hdr["cert_block_certs"] = [hashlib.sha256(c.export()).hexdigest()[:16] for c in cbk.certificates]
        return hdr, secs

    def compare_content(self, got: list, who: str, label: str, faulted: bool) -> bool:
        """True if `got` equals what was given to the builder (modulo the padded-LOAD finding, reported separately)."""
        same = True
        want = self.expected
        oracle = ("different-content-under-fault:" if faulted else "content-differs:") + who
        if [u for u, _ in got] != [u for u, _ in want]:
            gu, wu = [u for u, _ in got], [u for u, _ in want]
            site = "sections:leading-sections-only" if 0 < len(gu) < len(wu) and wu[: len(gu)] == gu else "sections"
            self.violation(oracle, site, f"{label}: {who} yields sections {[hex(u) for u, _ in got]}, supplied {[hex(u) for u, _ in want]}")
            return False
        for si, ((_, gc), (_, wc)) in enumerate(zip(got, want)):
            if len(gc) != len(wc):
                self.violation(oracle, "command-count", f"{label}: {who} yields {len(gc)} commands in section {si}, supplied {len(wc)}")
                same = False
                continue
            for ci, (g, w) in enumerate(zip(gc, wc)):
                d = cmd_equal(g, w)
                if d is not None:
                    self.violation(oracle, d[0], f"{label}: {who}, section {si} command {ci}: {d[1]}")
                    same = False
        return same

    def check_clean(self, data: bytes, label: str) -> bool:
        from c04.rom2 import RomReject

        p = self.plan
        ok = True
        try:
            res, content = self.rom_content(data)
        except RomReject as exc:
            self.violation("rom-rejects-export", exc.stage, f"{label}: the ROM-loader model rejects the file: {exc}")
            return False
        self.section_offsets = [sec["offset"] for sec in res["sections"]]
        self.sections_plain = [{"plain": sec["plain"], "body_offset": sec["body_offset"]} for sec in res["sections"]]
        self.compare_content(content, "rom", label, False)
        want = {
            "version": p["version"],
            "product_version": _norm_ver(p["pv"]),
            "component_version": _norm_ver(p["cv"]),
            "build_number": p["build"],
            "timestamp": self.expected_ts,
            "flags": (0x8 | (0x8000 if p.get("sha") else 0)) if p["version"] == "2.1" else (0x8 if p["signed"] else 0x4),
            "max_section_mac_count": res["mac_total"],
            "image_blocks": (len(data) if p["version"] == "2.1" or not p["signed"] else len(data) - (256 if self.sig_len == 256 else self.sig_len)) // 16,
        }
        for k, v in want.items():
            if res[k] != v:
                self.violation("header-field", k, f"{label}: header field {k} is {res[k]!r}, expected {v!r}")
        if res.get("cert_image_length_mismatch"):
            got_il, want_il = res["cert_image_length_mismatch"]
            self.violation("header-field", "cert-block-image-length", f"{label}: the certificate block announces {got_il} signed bytes, the signature covers {want_il}")
        adv = p.get("adv") or {}
        if adv.get("dek") is not None and res["dek"] != gen_bytes(adv["dek"], 32):
            self.violation("key-blob", "dek", f"{label}: the key blob unwraps to a DEK other than the one supplied")
        if adv.get("mac") is not None and res["mac"] != gen_bytes(adv["mac"] + 1000, 32):
            self.violation("key-blob", "mac", f"{label}: the key blob unwraps to a MAC key other than the one supplied")
        # SPSDK's own parser
        try:
            hdr, scontent = self.spsdk_content(data)
        except Exception as exc:  # pylint: disable=broad-except
            self.violation("spsdk-parser-fails", type(exc).__name__, f"{label}: SPSDK's own parser fails on the file it wrote: {type(exc).__name__}: {exc}")
            return ok
        self.compare_content(scontent, "spsdk-parser", label, False)
        for k in ("product_version", "component_version", "build_number"):
            w = want[k]
            if hdr[k] != w:
                self.violation("header-field:spsdk-parser", k, f"{label}: SPSDK's parser reports {k} = {hdr[k]!r}, supplied {w!r}")
        if "cert_block_rkth" in hdr and getattr(self, "rkth", None) is not None:
            if hdr["cert_block_rkth"] != self.rkth.hex():
                self.violation("header-field:spsdk-parser", "cert-block-rkth", f"{label}: the certificate block SPSDK's parser returns has the root key table hash {hdr['cert_block_rkth'][:16]}..., the table supplied hashes to {self.rkth.hex()[:16]}...")
        self.clean_hdr = hdr
        return ok

    def check_faulty(self, data: bytes, label: str, kek=None, must_reject: bool = False) -> None:
        """Storage fault: each consumer either raises or returns content equal to the original."""
        from c04.rom2 import RomReject

        try:
            _res, content = self.rom_content(data, kek)
        except RomReject as exc:
            self.probe("rom_rejects_at_" + exc.stage)
        else:
            if must_reject:
                raise HarnessError(f"{label}: the ROM model accepted a corruption inside the authenticated range")
            self.compare_content(content, "rom", label, True)
            self.probe("rom_accepts_equal_content")
        try:
            _hdr, scontent = self.spsdk_content(data, kek)
        except S.SPSDKError:
            self.probe("spsdk_parser_raises_SPSDKError")
        except Exception as exc:  # pylint: disable=broad-except
            self.probe("spsdk_parser_raises_" + type(exc).__name__)
        else:
            same = self.compare_content(scontent, "spsdk-parser", label, True)
            clean_hdr = getattr(self, "clean_hdr", None)
            if clean_hdr is not None and kek is None:
                # header content counts as content: what the parser reports for the damaged file must be what it reported
                # for the file as written
                for kf in sorted(clean_hdr):
                    if _hdr.get(kf) != clean_hdr[kf]:
                        self.violation("different-content-under-fault:spsdk-parser", "header:" + kf, f"{label}: SPSDK's parser accepts the damaged file and reports {kf} = {str(_hdr.get(kf))[:40]!r}, the file as written has {str(clean_hdr[kf])[:40]!r}")
                        same = False
            if same and must_reject:
                self.probe("spsdk_parser_accepts_corrupted_file_with_equal_content")
                self.obs["spsdk_accepts_corruption_equal_content"] = self.obs.get("spsdk_accepts_corruption_equal_content", 0) + 1

    def execute(self) -> dict:  # noqa: C901
        p = self.plan
        if p.get("tz"):
            # the process runs in another time zone (runs are executed in forked copies of the worker, so this does not leak)
            import time as _time

            os.environ["TZ"] = p["tz"]
            _time.tzset()
            self.probe("process_in_a_time_zone_other_than_utc")
        if p.get("prelude"):
            # another image was built and exported in this process before: nothing of it may leak into this one
            sub = Run(p["prelude"])
            sub.execute()
            if getattr(sub, "td", None):
                self.td = sub.td  # both are built in the same project folder: the same file names, other contents
            self.records += sub.records
            self.log.add("prelude", sub.log.digest())
            self.probe("image_built_after_another_in_the_same_process")
        CLOCK.reset()
        CLOCK.advance(p.get("t0_us", 0))
        img = self.build()
        self.built_img = img
        self.sig_len = 0
        if self.signed:
            self.sig_len = 512 if p["key"].get("bits") == 4096 else 256
        # the history of the object before the export that is judged below: read-only calls and earlier exports
        # (every exported file is one "SPSDK builds", so each goes through the fault-free check)
        for j, call in enumerate(p.get("pre") or []):
            try:
                if call == "str":
                    str(img)
                elif call == "raw_size":
                    _ = img.raw_size
                elif call == "update" and hasattr(img, "update"):
                    img.update()
                elif call == "export":
                    early = img.export()
                    self.probe("exported_more_than_once")
                    self.check_clean(early, f"export #{j + 1} of the object (an earlier export)")
            except S.SPSDKError as exc:
                self.violation("export-raises", f"pre:{call}:{type(exc).__name__}", f"{call} before the export raised {type(exc).__name__}: {exc}")
            self.log.add("pre", call)
        try:
            data = img.export()
        except S.SPSDKError as exc:
            self.violation("export-raises", type(exc).__name__, f"export raised {type(exc).__name__}: {exc}")
            return self.result()
        self.log.add("export", len(data))
        self.data = data
        clean_ok = self.check_clean(data, "fault-free")
        self.log.add("clean", clean_ok, len(self.records))
        base_records = len(self.records)
        nd = 0
        for k, op in enumerate(p.get("ops", [])):
            name = op["op"]
            if not clean_ok:
                break
            if name == "flip":
                pos = flip_pos(op, data, self)
                g = bytearray(data)
                g[pos] ^= 1 << (op["bit"] & 7)
                self.fault("storage_bit_flip")
                authenticated = self.signed or not 200 <= pos < 208
                self.check_faulty(bytes(g), f"op {k}: bit {op['bit'] & 7} of byte {pos}/{len(data)} flipped ({region(pos, data, self)})", must_reject=authenticated)
                self.log.add("flip", pos, op["bit"] & 7)
            elif name == "trunc":
                n = op["r"] % len(data)
                if op.get("align"):
                    n -= n % 16
                self.fault("storage_truncation")
                self.check_faulty(data[:n], f"op {k}: file truncated to {n}/{len(data)} bytes", must_reject=True)
                self.log.add("trunc", n)
            elif name == "trunc_section":
                offs = [o_ for o_ in self.section_offsets[1:]]
                if not offs:
                    continue
                n = offs[op["r"] % len(offs)]
                self.fault("storage_truncation_at_section_boundary")
                self.check_faulty(data[:n], f"op {k}: file cut at the boundary before section {self.section_offsets.index(n)} ({n}/{len(data)} bytes)", must_reject=True)
                self.log.add("trunc_section", n)
            elif name == "malleate":
                # AES-CTR is malleable: two bits of one command header are flipped so that the additive header checksum
                # still holds (the address or count changes). Only the section MACs / the signed SHA-256 stand against it.
                secs = self.sections_plain
                cands = []
                for si_, sec in enumerate(secs):
                    plain = sec["plain"]
                    o_ = 0
                    while o_ + 16 <= len(plain):
                        tag_ = plain[o_ + 1]
                        cands.append((si_, o_))
                        o_ += 16 + ((struct.unpack_from("<L", plain, o_ + 8)[0] + 15) // 16 * 16 if tag_ == 2 else 0)
                if not cands:
                    continue
                si_, o_ = cands[op["r"] % len(cands)]
                hdr = secs[si_]["plain"][o_ : o_ + 16]
                done = False
                for j in range(8):
                    bit = (op["bit"] + j) % 8
                    zeros = [b for b in range(4, 12) if not hdr[b] >> bit & 1]
                    ones = [b for b in range(4, 12) if hdr[b] >> bit & 1]  # (bytes 12..15 of a LOAD carry the CRC of randomly padded data)
                    if zeros and ones and (len(zeros) > 1 or zeros != ones):
                        a_ = zeros[op["r"] // 7 % len(zeros)]
                        b_ = [b for b in ones if b != a_][op["r"] // 11 % len([b for b in ones if b != a_])]
                        g = bytearray(data)
                        base = secs[si_]["body_offset"] + o_
                        g[base + a_] ^= 1 << bit
                        g[base + b_] ^= 1 << bit
                        done = True
                        break
                if not done:
                    continue
                self.fault("storage_ctr_malleation")
                self.check_faulty(bytes(g), f"op {k}: two bits of the command header at {base} flipped so that its checksum still holds", must_reject=True)
                self.log.add("malleate", base, a_, b_, bit)
            elif name == "wrong_kek":
                kk = bytearray(self.kek)
                kk[op["r"] % 32] ^= 1 << (op["bit"] & 7)
                self.fault("wrong_kek")
                self.check_faulty(data, f"op {k}: consumer holds a KEK differing in one bit", kek=bytes(kk), must_reject=True)
                self.log.add("wrong_kek")
            elif name == "torn":
                # torn replacement: a prefix of this file over an older, different file of the same object family
                other = bytearray(gen_bytes(op["r"], len(data)))
                n = op["r"] % len(data)
                other[:n] = data[:n]
                self.fault("storage_torn_replacement")
                self.check_faulty(bytes(other), f"op {k}: first {n} bytes of the file over unrelated older content", must_reject=True)
                self.log.add("torn", n)
            elif name == "deliver":
                self.deliver(k, op, data, nd)
                nd += 1
            if len(self.records) > base_records + 10:
                break
        return self.result()

    def deliver(self, k: int, op: dict, data: bytes, nd: int) -> None:
        from c04.rom2 import RomReject

        c10 = S.c10
        s = c10.Session({"transport": op["transport"], "max_packet": op["max_packet"], "knobs": op["knobs"]}, self.log)
        rom = self.rom()
        effect: list = []

        def sink(blob: bytes) -> int:
            try:
                res = rom.load(blob)
            except RomReject:
                return 10101
            effect.append([(sec["uid"], sec["commands"]) for sec in res["sections"]])
            return 0

        s.core.sb_sink = sink
        s.open()
        helper = c10.Run({"ops": [], "faults": []})
        fp = helper.fault_plan_for(s, 0, op.get("faults", []))
        s.link.new_op(fp)
        s.link.max_io_calls = 200 * (len(data) // op["max_packet"] + 10) + 4000
        try:
            ret = s.mb.receive_sb_file(data, check_errors=bool(op.get("check_errors")))
            outcome = ("ret", ret)
        except s.lk.Unbounded as exc:
            outcome = ("unbounded", str(exc))
        except S.SPSDKError as exc:
            outcome = ("spsdk_exc", type(exc).__name__)
        except Exception as exc:  # pylint: disable=broad-except
            outcome = ("other_exc", type(exc).__name__)
        for kk, v in list(fp.fired.items()) + list(s.core.fired.items()):
            self.fault("link_" + kk, v)
        faulted = bool(fp.fired) or bool(s.core.fired)
        if fp.extra_fired:
            # a fault kind the C10 statement does not name (late arrival) fired: observed, never judged
            for kk, v in fp.extra_fired.items():
                self.obs["extra_" + kk] = self.obs.get("extra_" + kk, 0) + v
            try:
                s.close()
            except Exception:  # pylint: disable=broad-except
                pass
            return
        success = outcome[0] == "ret" and outcome[1] is True and s.mb.status_code == 0
        label = f"op {k}: delivery over {op['transport']}"
        if outcome[0] in ("other_exc", "unbounded"):
            self.violation("delivery-" + outcome[0], outcome[1], f"{label}: {outcome}")
        if success:
            if len(effect) != 1:
                self.violation("wrong-success", "receive_sb_file:effect", f"{label}: reported success but the device processed {len(effect)} files")
            else:
                before = len(self.records)
                self.compare_content(effect[0], "rom", label + " (device effect)", True)
                if len(self.records) > before:
                    pass
            self.probe("delivery_success" + ("_despite_fault" if faulted else ""))
        else:
            if not faulted:
                self.violation("fault-free-delivery-failed", outcome[0], f"{label}: no fault was injected but the call ended with {outcome}, status {s.mb.status_code}")
            self.probe("delivery_failed")
        self.log.add("deliver", nd, outcome[0], str(outcome[1])[:40], s.mb.status_code, len(effect), sorted(fp.fired))
        try:
            s.close()
        except Exception:  # pylint: disable=broad-except
            pass

    def result(self) -> dict:
        p = self.plan
        ncmds = sum(len(s["cmds"]) for s in p["sections"])
        fired = sum(self.faults.values())
        self.obs["faulted_runs" if fired else "control_runs"] = 1
        isig = [p["version"], p.get("signed"), p["key"], bool(p.get("sha")), sorted((p.get("adv") or {}).keys()), [(s["hmac_count"], len(s["cmds"])) for s in p["sections"]], p["pv"] == p["cv"]]
        fsig = [[o["op"], o.get("region"), o.get("transport"), [(f.get("kind"), f.get("pos")) for f in o.get("faults", [])]] for o in p.get("ops", [])]
        shape = [[(c["t"], (c.get("l") or 0) % 16) for c in s["cmds"]] for s in p["sections"]]
        seen, out = set(), []
        for r in self.records:
            kk = (r["oracle"], r["site"])
            if kk not in seen:
                seen.add(kk)
                out.append(r)
        return {
            "records": out,
            "digest": self.log.digest(),
            "sig": [digest(isig)[:16], digest(fsig)[:16], digest(shape)[:16]],
            "nontrivial": ncmds >= 2 or fired > 0,
            "faults": self.faults,
            "probes": self.probes,
            "obs": self.obs,
            "sim_time_us": CLOCK.now_us,
            "steps": 1 + len(p.get("ops", [])),
            "trace": self.trace,
        }


def _norm_ver(v: str) -> str:
    return ".".join(f"{int(x, 16):X}" for x in v.split("."))


def flip_pos(op: dict, data: bytes, run: Run) -> int:
    n = len(data)
    reg = op.get("region", "any")
    r = op["r"]
    if reg == "header":
        return r % 96
    if reg == "hmac":
        return 96 + r % 32
    if reg == "keyblob":
        return 128 + r % 80
    if reg == "cert" and run.signed:
        return 208 + r % 700
    if reg == "tail":
        return n - 1 - r % min(n, 600)
    if reg == "sectionhdr":
        fbtb = struct.unpack_from("<I", data, 36)[0]
        return min(n - 1, fbtb * 16 + r % 112)
    return r % n


def region(pos: int, data: bytes, run: Run) -> str:
    if pos < 96:
        return "header"
    if pos < 128:
        return "header-hmac"
    if pos < 200:
        return "key-blob"
    if pos < 208:
        return "key-blob-padding"
    fbtb = struct.unpack_from("<I", data, 36)[0] * 16
    if pos < fbtb:
        return "cert-block/sha/signature"
    return "sections"


def execute(plan: dict) -> dict:
    import shutil

    worker_init()
    run = Run(plan)
    try:
        return run.execute()
    finally:
        if getattr(run, "td", None):
            shutil.rmtree(run.td, ignore_errors=True)


# ----------------------------------------------------------------------------------------------
# generation

MEM_IDS = [0, 0, 1, 8, 9, 0x100, 0x101, 0x110, 0x120, 0x121, 0x10, 0x108]
EXT_MEM = [1, 8, 9, 0x100 & 0xFF]


def gen_cmd(rng: random.Random) -> dict:
    t = rng.choice(["load"] * 7 + ["fill"] * 2 + ["erase"] * 2 + ["jump", "call", "reset", "nop", "mem_enable", "prog", "version_check", "keystore_to_nv", "keystore_from_nv"])
    a = rng.choice([0, 0x1000, 0x2000_0000, 0x0800_0000, rng.randrange(1 << 32), 0xFFFF_FFFF])
    m = rng.choice(MEM_IDS)
    if t == "load":
        return {"t": t, "a": a, "l": rng.choice([1, 2, 3, 4, 5, 6, 7, 8, 9, 10, 11, 12, 13, 14, 15, 16, 17, 31, 32, 33, 100, 255, 256, 1000, rng.randint(1, 600)]), "m": m, "s": rng.randrange(1 << 30)}
    if t == "fill":
        return {"t": t, "a": a, "p": rng.choice([0, 0x5A, 0xFF, 0x100, 0x1234, 0xFFFF, 0x10000, 0x123456, 0x12345678, 0xFFFFFFFF, rng.randrange(1 << 32)]), "l": 4 * rng.choice([1, 1, 2, 64, rng.randrange(1, 1 << 28)])}
    if t == "jump":
        return {"t": t, "a": a, "arg": rng.randrange(1 << 32), "sp": rng.choice([None, None, 0x2000_8000, 0, rng.randrange(1 << 32)])}
    if t == "call":
        return {"t": t, "a": a, "arg": rng.randrange(1 << 32)}
    if t == "erase":
        return {"t": t, "a": a, "l": rng.choice([0, 0x1000, rng.randrange(1 << 32)]), "f": rng.choice([0, 0, 1]), "m": m}
    if t == "mem_enable":
        return {"t": t, "a": a, "l": rng.choice([4, 0x200, rng.randrange(1 << 32)]), "m": m}
    if t == "prog":
        return {"t": t, "a": rng.randrange(1 << 32), "m": rng.choice([0, 4, 9, 0xFF]), "w1": rng.randrange(1 << 32), "w2": rng.choice([0, 0, rng.randrange(1, 1 << 32)])}
    if t == "version_check":
        return {"t": t, "k": rng.choice([0, 1]), "v": rng.randrange(1 << 32)}
    if t in ("keystore_to_nv", "keystore_from_nv"):
        return {"t": t, "a": a, "m": rng.choice([1, 8, 9])}
    return {"t": t}


def to_bd_plan(plan: dict, rng: random.Random) -> None:
    """Rewrites a plan into one that a BD command file can express (SB2.1, four-root key set, BD statement forms)."""
    plan["via_bd"] = "yaml" if rng.random() < 0.35 else True
    plan["version"] = "2.1"
    plan["signed"] = True
    nroots = rng.randint(1, 4)
    plan["key"] = {"kind": "k4", "nroots": nroots, "used": rng.randrange(nroots)}
    if plan.get("adv"):
        plan["adv"].pop("tz_minutes", None)
    for s_ in plan["sections"]:
        s_["hmac_count"] = 1  # not expressible; the header field is judged against what the file carries
        cmds = []
        for c in s_["cmds"]:
            t = c["t"]
            if t in ("call", "reset", "nop"):
                c = {"t": "jump", "a": c.get("a", 0x1000), "arg": c.get("arg", 0), "sp": None}
            elif t == "load":
                c["m"] = rng.choice([0, 0, 0, 8, 9, 0x120])
                if rng.random() < 0.2:
                    c["l"] = 4
                    c["form"] = "blob"
            elif t == "fill":
                c["p"] = rng.choice([0x12345678, 0xFFFFFFFF, 0xC0000001, 0x80000000 | rng.randrange(1 << 31)])
                c["l"] = rng.choice([4, 4, 8, 0x100, 0x1000, 4 * rng.randrange(1, 1 << 20)])
                c["a"] = rng.choice([0, 0x1000, 0x2000_0000, 4 * rng.randrange(1 << 28)])
                c["range"] = rng.random() < 0.5
            elif t == "erase":
                c["m"] = rng.choice([0, 0, 8, 9, 0x120])
                c["f"] = rng.choice([0, 0, 1, 2])
                if c["f"] == 2:
                    c["m"] = 0
                if not c["f"]:
                    c["a"] = rng.choice([0, 0x1000, 0x0800_0000, rng.randrange(1 << 31)])
                    c["l"] = rng.choice([0x1000, 1, rng.randrange(1, 1 << 30)])
            elif t == "mem_enable":
                c["m"] = rng.choice([8, 9, 0x120, 1])
                c["l"] = 4
            elif t == "prog":
                c["m"] = 4
                c["kw"] = rng.choice(["fuse", "ifr"])
                c["form"] = rng.choice(["int", "blob", "blob"])
                if c["form"] == "int":
                    c["w2"] = 0
                    c["w1"] = c["w1"] or 1
                else:
                    c["w1"] |= 0x01000000  # (the blob is read back through an integer: keep its first byte non-zero)
                    c["w1"] |= 1
            elif t == "jump":
                c["explicit_arg"] = rng.random() < 0.3
            elif t in ("keystore_to_nv", "keystore_from_nv"):
                c["m"] = 9
            cmds.append(c)
        s_["cmds"] = cmds


def gen_ver(rng: random.Random) -> str:
    def part():
        return rng.choice(["0", "1", "2", "9", "10", "99", "123", "999", "1000", "9999"])

    return f"{part()}.{part()}.{part()}"


def gen_plan(family: str, i: int, rng: random.Random, tier: str, _depth: int = 0) -> dict:
    from c10 import sim as c10sim

    version = rng.choice(["2.0", "2.1", "2.1"])
    signed = rng.random() < 0.6 if version == "2.0" else True
    key = rng.choice([{"kind": "self", "bits": 2048, "slot": rng.randrange(4)}, {"kind": "self", "bits": 4096, "slot": 0}, {"kind": "k4", "nroots": rng.randint(1, 4)}, {"kind": "k4", "nroots": rng.randint(2, 4)}, {"kind": "chain3", "bits": 4096, "depth": 3, "slot": rng.randrange(4)}])
    if key["kind"] == "k4":
        if rng.random() < 0.4:
            key["slots"] = sorted(rng.sample(range(4), rng.randint(1, 3)))  # root keys in arbitrary slots, gaps stay empty
            key["used"] = rng.choice(key["slots"])
            key["reverse_order"] = rng.random() < 0.5
        else:
            key["used"] = rng.randrange(key["nroots"])
    nsec = rng.choice([1, 1, 1, 2, 2, 3, 4])
    uids = rng.sample([0, 1, 2, 3, 0x10, 0xFFFF, 0x12345678, 0xFFFFFFFF, 7, 100], nsec)
    sections = []
    for si in range(nsec):
        cmds = [gen_cmd(rng) for _ in range(rng.randint(1, 7))]
        sections.append({"uid": uids[si], "hmac_count": rng.choice([1, 1, 2, 3, 5, 10, 16, 40]), "cmds": cmds})
    same_ver = rng.random() < 0.4
    pv = gen_ver(rng)
    adv = None
    if rng.random() < 0.6:
        adv = {}
        for kname in ("dek", "mac", "nonce"):
            if rng.random() < 0.6:
                adv[kname] = rng.randrange(1 << 20)
        if adv.get("nonce") is not None and rng.random() < 0.15:
            adv["nonce_high"] = True
        if rng.random() < 0.5:
            adv["timestamp"] = rng.choice([946684800, 946684801, 1_600_000_000, 1_750_000_000, rng.randrange(946684800, 4_000_000_000)])
        if adv.get("timestamp") is not None and rng.random() < 0.35:
            adv["tz_minutes"] = rng.choice([0, 330, -480, 60, 845])
        if rng.random() < 0.3:
            adv["zero_padding"] = True
    plan = {
        "version": version, "signed": signed, "key": key, "kek_seed": rng.randrange(1 << 20), "adv": adv, "pv": pv, "cv": pv if same_ver else gen_ver(rng),
        "build": rng.choice([0, 1, 0xFFFF, rng.randrange(1 << 32)]), "sha": rng.random() < 0.5, "sections": sections, "t0_us": rng.choice([0, rng.randrange(10**12)]), "ops": [],
    }
    if rng.random() < 0.3:
        plan["attach_early"] = True
    if rng.random() < 0.25:
        plan["tz"] = rng.choice(["XXX-5:30", "PST8", "CET-1", "NPT-5:45", "XYZ+9:30"])
    if nsec >= 2 and version == "2.1" and rng.random() < 0.12:  # (SB2.0 refuses a second section with the same identifier)
        # two sections that are equal by value (same identifier, same commands)
        sections[rng.randrange(1, nsec)] = copy.deepcopy(sections[0])
    if rng.random() < 0.25:
        to_bd_plan(plan, rng)
    else:
        for s_ in sections:
            for c in s_["cmds"]:
                if c["t"] == "load" and rng.random() < 0.15:
                    c["ba"] = True
        if rng.random() < 0.3:
            edits = []
            for _ in range(rng.randint(1, 3)):
                kind = rng.choice(["replace", "append", "set_data", "set_uid"])
                e = {"e": kind, "s": rng.randrange(8), "c": rng.randrange(8)}
                if kind in ("replace", "append"):
                    e["cmd"] = gen_cmd(rng)
                elif kind == "set_data":
                    e.update(seed=rng.randrange(1 << 30), len=rng.choice([1, 16, 17, 100, 1000, rng.randint(1, 600)]))
                else:
                    e["uid"] = rng.choice([0, 5, 0xFFFFFFFF, rng.randrange(1 << 32)])
                edits.append(e)
            plan["edits"] = edits
    if rng.random() < 0.35:
        plan["pre"] = [rng.choice(["str", "export", "export", "raw_size", "update"]) for _ in range(rng.randint(1, 3))]
    if family == "control":
        if _depth == 0 and rng.random() < 0.2:
            plan["prelude"] = gen_plan("control", i, rng, tier, _depth=1)
            if plan.get("via_bd") and not plan["prelude"].get("via_bd"):
                plan["prelude"].pop("edits", None)
                to_bd_plan(plan["prelude"], rng)  # two BD builds in one project folder
        return plan
    ops = plan["ops"]
    for _ in range(rng.randint(1, 6)):
        r = rng.random()
        if r < 0.5:
            ops.append({"op": "flip", "region": rng.choice(["any", "any", "header", "hmac", "keyblob", "cert", "sectionhdr", "tail"]), "r": rng.randrange(1 << 30), "bit": rng.randrange(8)})
        elif r < 0.58:
            ops.append({"op": "trunc", "r": rng.randrange(1 << 30), "align": rng.random() < 0.5})
        elif r < 0.64:
            ops.append({"op": "trunc_section", "r": rng.randrange(1 << 30)})
        elif r < 0.68:
            ops.append({"op": "wrong_kek", "r": rng.randrange(1 << 30), "bit": rng.randrange(8)})
        elif r < 0.74:
            ops.append({"op": "malleate", "r": rng.randrange(1 << 30), "bit": rng.randrange(8)})
        elif r < 0.79:
            ops.append({"op": "torn", "r": rng.randrange(1 << 30)})
        else:
            transport = rng.choice(["uart", "hid"])
            mp = rng.choice([32, 56, 64, 256, 512, 1016]) if transport == "hid" else rng.choice([32, 64, 256, 512, 1024])
            knobs = {"timeout_ms": rng.choice([500, 2000, 5000]), "byte_us": rng.choice([87, 10]), "latency_us": rng.choice([50, 200, 2000]), "not_ready": 0, "slow_us": 0, "cmd_exception": rng.random() < 0.2}
            o = {"op": "deliver", "transport": transport, "max_packet": mp, "knobs": knobs, "check_errors": rng.random() < 0.4, "faults": []}
            if rng.random() < 0.7:
                o["faults"] = [c10sim.gen_fault(rng, 1, transport, [{"op": "receive_sb_file", "len": 3000}], mp, extra_ok=False) for _ in range(rng.choice([1, 1, 2]))]
            ops.append(o)
    return plan


def families(tier: str):
    if tier == "quick":
        return [("control", 700), ("faulted", 900)]
    return [("control", 40000), ("faulted", 60000)]


def reductions(plan: dict):
    if plan.get("prelude"):
        c = copy.deepcopy(plan)
        c.pop("prelude")
        yield c
    if plan.get("pre"):
        yield from ddmin_lists(plan, [["pre"]])
    if plan.get("edits"):
        yield from ddmin_lists(plan, [["edits"]])
    if plan.get("tz"):
        c = copy.deepcopy(plan)
        c.pop("tz")
        yield c
    yield from ddmin_lists(plan, [["ops"]])
    if len(plan["sections"]) > 1:
        yield from ddmin_lists(plan, [["sections"]])
    for si, s in enumerate(plan["sections"]):
        if len(s["cmds"]) > 1:
            yield from ddmin_lists(plan, [["sections", si, "cmds"]])
        if s["hmac_count"] != 1:
            c = copy.deepcopy(plan)
            c["sections"][si]["hmac_count"] = 1
            yield c
        for ci, cm in enumerate(s["cmds"]):
            if cm["t"] == "load" and cm["l"] > 1:
                for nl in (1, 16, cm["l"] // 2):
                    if 0 < nl < cm["l"]:
                        c = copy.deepcopy(plan)
                        c["sections"][si]["cmds"][ci]["l"] = nl
                        yield c
    for key, val in (("adv", None), ("sha", False), ("build", 0), ("t0_us", 0), ("pv", "1.0.0"), ("cv", "1.0.0")):
        if plan.get(key) != val:
            c = copy.deepcopy(plan)
            c[key] = val
            yield c
    if plan["key"] != {"kind": "self", "bits": 2048, "slot": 0}:
        c = copy.deepcopy(plan)
        c["key"] = {"kind": "self", "bits": 2048, "slot": 0}
        yield c
    if plan["version"] == "2.0" and plan["signed"]:
        c = copy.deepcopy(plan)
        c["signed"] = False
        yield c
