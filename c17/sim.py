"""C17 — self-chosen secrets are fresh: histories of artifact constructions across simulated restarts."""
from __future__ import annotations

import copy
import json
import os
import random
import sys

from simkit.core import EventLog, HarnessError, ddmin_lists, digest

PROP = "C17"
LEVEL = "exploration"
BUDGET_S = {"quick": 420, "thorough": 2400}
CHUNK = 2
RULE = (
    "each run = a history of 1..3 epochs (simulated interpreter lifetimes: forked children that import spsdk afresh, in a "
    "plan-chosen module order, under an injective entropy device and a simulated wall clock that the plan may repeat "
    "across epochs), each epoch 2..8 artifact constructions over SB2.0/2.1, MBI (class and load_from_config), OTFAD, IEE, "
    "BEE, HAB; oracle: no two artifacts of the history share a self-chosen secret. Non-trivial = >=2 artifacts; distinct "
    "= distinct (import order + clock pattern, -, operation-shape) signatures counted with a set."
)
COMPONENTS = {
    "real": ["BootImageV20/V21, SBV2xAdvancedParams", "create_mbi_class / get_mbi_class / load_from_config / export", "otfad.KeyBlob", "iee.IeeKeyBlob", "bee.BeeProtectRegionBlock / BeeKIB / BeeRegionHeader", "hab CsfHabSegment.get_dek_from_config / generate_nonce", "spsdk.crypto.rng"],
    "stub": ["OS entropy (secrets.token_bytes/token_hex/randbelow, os.urandom): injective counter device", "wall clock (time.*, datetime.now)", "interpreter restart (fork + fresh import of spsdk instead of exec)"],
}
MEASURES = {
    "distinct_schedules": "distinct (module import order, clock pattern across restarts) sequences",
    "distinct_states": "not measured (0)",
    "sim_time_s": "not meaningful here (the clock only serves to repeat or step back wall time across restarts)",
}
ASSUMPTIONS = [
    "the entropy device is injective, so equal secrets can only come from reuse in the code, never from chance",
    "a restart is modelled by a forked child that has imported third-party libraries but no spsdk module",
    "OpenSSL's internal RNG (signature nonces) is not a self-chosen secret of SPSDK and is not observed",
]

_THIRD_PARTY_DONE = False


def _fork_call(fn, arg, timeout_s=120):
    """Run fn(arg) in a forked child, return its JSON result."""
    r, w = os.pipe()
    pid = os.fork()
    if pid == 0:
        code = 0
        try:
            os.close(r)
            res = fn(arg)
            data = json.dumps(res).encode()
            with os.fdopen(w, "wb") as f:
                f.write(data)
        except BaseException:  # pylint: disable=broad-except
            import traceback

            traceback.print_exc()
            code = 3
        finally:
            os._exit(code)
    os.close(w)
    chunks = []
    with os.fdopen(r, "rb") as f:
        while True:
            c = f.read(1 << 16)
            if not c:
                break
            chunks.append(c)
    _, status = os.waitpid(pid, 0)
    if status != 0 or not chunks:
        raise HarnessError(f"epoch child failed with status {status}")
    return json.loads(b"".join(chunks))


def _list_third_party(_arg):
    import importlib

    from c17 import epoch

    for m in epoch.MODULES.values():
        importlib.import_module(m)
    return sorted(m for m in sys.modules if not m.startswith("spsdk") and not m.startswith("c17") and not m.startswith("simkit"))


def worker_init() -> None:
    """Pre-import third-party modules (never spsdk) so that an epoch only pays for importing spsdk itself."""
    global _THIRD_PARTY_DONE
    if _THIRD_PARTY_DONE:
        return
    assert not any(m == "spsdk" or m.startswith("spsdk.") for m in sys.modules), "the C17 worker must never import spsdk"
    # a private database cache per worker: the simulated clock makes filelock's 10 s timeout expire in
    # microseconds of real time, so epochs of different workers must never contend for one real lock file
    import shutil
    import tempfile

    global _TMP
    _TMP = os.path.join(os.environ.get("VERIF_TMP") or tempfile.gettempdir(), "verif-c17-%08d" % os.getpid())
    shutil.rmtree(_TMP, ignore_errors=True)
    os.makedirs(_TMP)
    os.environ["SPSDK_CACHE_FOLDER"] = os.path.join(_TMP, "cache")
    import atexit
    import multiprocessing.util as mpu

    mpu.Finalize(None, worker_exit, exitpriority=10)
    atexit.register(worker_exit)
    names = _fork_call(_list_third_party, None)
    import importlib

    for n in names:
        if n in sys.modules:
            continue
        try:
            importlib.import_module(n)
        except BaseException:  # pylint: disable=broad-except
            pass
    assert not any(m == "spsdk" or m.startswith("spsdk.") for m in sys.modules), "a third-party module imported spsdk"
    _THIRD_PARTY_DONE = True


_TMP = None


def worker_exit() -> None:
    import shutil

    if _TMP:
        shutil.rmtree(_TMP, ignore_errors=True)


def _run_epoch(spec):
    from c17 import epoch

    return epoch.run_epoch(spec)


def execute(plan: dict) -> dict:
    worker_init()
    log = EventLog()
    records = []
    artifacts = []  # (epoch, op index, kind, slots, explicit)
    draw = 1
    probes: dict = {}
    faults: dict = {}
    wall = 0
    trace = []
    import shutil

    workdir = os.path.join(_TMP, "workspace")
    shutil.rmtree(workdir, ignore_errors=True)
    os.makedirs(workdir)
    for ei, ep in enumerate(plan["epochs"]):
        if ei > 0:
            faults["restart"] = faults.get("restart", 0) + 1
        mode = ep.get("clock", "advance")
        if ei > 0 and mode == "same":
            faults["clock_repeated_across_restart"] = faults.get("clock_repeated_across_restart", 0) + 1
        elif ei > 0 and mode == "back":
            wall -= ep.get("back_us", 3_600_000_000)
            faults["clock_stepped_back"] = faults.get("clock_stepped_back", 0) + 1
        elif ei > 0:
            wall += ep.get("gap_us", 5_000_000)
        spec = {"first_draw": draw, "wall_us": wall, "imports": ep["imports"], "ops": ep["ops"], "workdir": workdir, "app_seed": plan.get("app_seed")}
        res = _fork_call(_run_epoch, spec)
        if res.get("fatal"):
            raise HarnessError("epoch failed: " + res["fatal"])
        if not res.get("seam_ok"):
            # spsdk.crypto.rng does not draw from secrets.token_bytes any more: the other sources the simulator owns
            # (os.urandom, the seeded global PRNG) still make the run repeatable; counted, not an error
            probes["rng_does_not_use_secrets_token_bytes"] = probes.get("rng_does_not_use_secrets_token_bytes", 0) + 1
        draw = max(res["next_draw"], draw + 1)  # unique per epoch even if the epoch drew nothing
        if draw >= 1 << 16:
            raise HarnessError("the history drew more than 65535 values: the per-process draw ranges would overlap")
        if os.environ.get("VERIF_C17_DEBUG"):
            print("epoch", ei, res.get("clock"), file=sys.stderr)
        n_import_draws = sum(1 for d in res["draws"] if d[2] == "import")
        if n_import_draws:
            probes["draws_during_import"] = probes.get("draws_during_import", 0) + n_import_draws
        log.add("epoch", ei, ep["imports"], mode, len(res["draws"]), n_import_draws)
        for e in res["errors"]:
            # an operation that cannot be built is a harness problem (the workload only uses valid constructions)
            raise HarnessError(f"operation failed in epoch {ei}: {e[:3]}\n{e[3]}")
        for art in res["artifacts"]:
            artifacts.append((ei, art["op_index"], art["kind"], art["slots"], art.get("explicit", []), art.get("pair")))
            log.add("artifact", ei, art["op_index"], art["kind"], sorted(art["slots"].items()))
            trace.append([ei, art["op_index"], art["kind"], {k: v[:16] for k, v in art["slots"].items()}])
            if art.get("stored_equal") is False:
                records.append({"oracle": "stored-dek", "site": "hab_dek", "msg": "the HAB DEK written to disk differs from the one returned"})
        draw_sites = {}
        for d in res["draws"]:
            draw_sites[(d[2] == "import", d[3])] = draw_sites.get((d[2] == "import", d[3]), 0) + 1
        for (imp, site), cnt in sorted(draw_sites.items()):
            log.add("draws", ei, imp, site, cnt)
    # ---- oracle: pairwise distinct self-chosen secrets over the whole history
    seen: dict = {}
    for ei, oi, kind, slots, explicit, _pair in artifacts:
        for name, val in sorted(slots.items()):
            if name in explicit:
                continue
            key = val
            if key in seen:
                e0, o0, k0, n0 = seen[key]
                if (e0, o0) == (ei, oi):
                    where = "within one artifact"
                elif e0 != ei:
                    where = "across a restart"
                elif isinstance(o0, str) or isinstance(oi, str):
                    where = "across a fork"
                else:
                    where = "same process"
                a, b = sorted([f"{k0}.{n0}", f"{kind}.{name}"])
                records.append(
                    {
                        "oracle": "shared-secret",
                        "site": f"{a}=={b}",
                        "msg": f"{k0}.{n0} of artifact (epoch {e0}, op {o0}) and {kind}.{name} of artifact (epoch {ei}, op {oi}) are the same value ({where}): {val[:24]}...",
                    }
                )
                probes["sharing_" + where.replace(" ", "_")] = probes.get("sharing_" + where.replace(" ", "_"), 0) + 1
            else:
                seen[key] = (ei, oi, kind, name)
    # (key, nonce) pairs: the same AES-CTR key never with the same nonce, even if one of the two was supplied explicitly
    pairs: dict = {}
    for ei, oi, kind, slots, explicit, pair in artifacts:
        if not pair or all(p in explicit for p in pair):
            continue
        pv = tuple(slots[p] for p in pair)
        if pv in pairs and pairs[pv] != (ei, oi):
            records.append({"oracle": "shared-key-nonce-pair", "site": f"{kind}.{'+'.join(pair)}", "msg": f"{kind} artifacts {pairs[pv]} and {(ei, oi)} use the same ({', '.join(pair)}) pair"})
        pairs.setdefault(pv, (ei, oi))
    shape = [[sorted(set(ep["imports"])), [[o["op"], o.get("variant"), o.get("version"), o.get("shared_attr"), o.get("reuse_config"), len(o.get("children", []))] for o in ep["ops"]]] for ep in plan["epochs"]]
    sched = [[ep["imports"], ep.get("clock", "advance")] for ep in plan["epochs"]]
    seen_sites = set()
    out_records = []
    for r in records:
        if (r["oracle"], r["site"]) not in seen_sites:
            seen_sites.add((r["oracle"], r["site"]))
            out_records.append(r)
    return {
        "records": out_records,
        "digest": log.digest(),
        "sig": [digest(sched)[:16], digest(sorted(faults))[:16], digest(shape)[:16]],
        "nontrivial": len(artifacts) >= 2,
        "faults": faults,
        "probes": probes,
        "obs": {"artifacts": len(artifacts), "epochs": len(plan["epochs"]), "entropy_draws": draw - 1},
        "sim_time_us": 0,
        "steps": len(artifacts),
        "trace": trace[:60],
    }


# ----------------------------------------------------------------------------------------------

NEEDS = {"sb2_config": "sb2", "fork": "sb2", "sb2": "sb2", "mbi_class": "mbi", "mbi_config": "mbi", "otfad": "otfad", "otfad_config": "otfad", "iee": "iee", "bee": "bee", "hab": "hab", "hab_rt": "habrt", "bee_config": "bee", "iee_config": "iee", "sb2_keywrap": "sb2", "hab_full": "habfull"}


def gen_op(rng: random.Random, allow_fork: bool = True) -> dict:
    kind = rng.choice(["sb2"] * 5 + ["sb2_config"] * 2 + ["sb2_keywrap"] + ["mbi_class"] * 2 + ["mbi_config"] * 2 + ["otfad"] * 3 + ["otfad_config"] * 2 + ["iee"] * 3 + ["bee"] * 4 + ["bee_config"] * 2 + ["iee_config"] * 2 + ["hab"] * 2 + ["hab_full"] * 2 + ["hab_rt"] * 2 + (["fork"] if allow_fork else []))
    if kind == "fork":
        def sub():
            return [gen_op(rng, allow_fork=False) for _ in range(rng.randint(1, 3))]

        o = {"op": "fork", "dt_us": 0, "children": [sub() for _ in range(rng.choice([1, 2, 2]))], "parent": sub() if rng.random() < 0.6 else []}
        return o
    o: dict = {"op": kind, "dt_us": rng.choice([0, 0, 1, 1000, 1_500_000])}
    if kind == "sb2":
        o["version"] = rng.choice(["2.0", "2.1", "2.1"])
        o["variant"] = rng.choice(["default", "default", "default", "params", "partial", "partial_nonce"])
        o["x"] = rng.randrange(3)
        if o["version"] == "2.0":
            o["signed"] = False
    elif kind == "mbi_class":
        o["family"] = rng.choice(["mimxrt595s", "mimxrt595s", "mimxrt685s"])
        o["explicit_iv"] = rng.random() < 0.15
        o["x"] = rng.randrange(3)
    elif kind == "mbi_config":
        o["export"] = rng.random() < 0.3
        o["reuse_object"] = rng.random() < 0.5
        o["reuse_config"] = rng.random() < 0.4
    elif kind == "iee_config":
        o["ctr"] = rng.random() < 0.6
        o["variant"] = rng.choice(["implicit", "implicit", "explicit_key1"])
        o["x"] = rng.randrange(2)
        o["export"] = rng.random() < 0.3
    elif kind == "sb2_config":
        o["reuse_config"] = rng.random() < 0.6
        o["export"] = rng.random() < 0.3
    elif kind == "otfad":
        o["export"] = rng.random() < 0.6
        o["export_twice"] = rng.random() < 0.4
        o["variant"] = rng.choice(["implicit", "implicit", "explicit_key", "explicit_key_ctr", "explicit_key_ctr"])
        o["x"] = rng.randrange(2)
    elif kind == "otfad_config":
        o["explicit_kek"] = rng.random() < 0.25
        o["reuse_config"] = rng.random() < 0.6
        o["nblobs"] = rng.choice([1, 2])
        o["family"] = rng.choice(["mimxrt595s", "mimxrt1010"])
        o["x"] = rng.randrange(2)
        o["export"] = rng.random() < 0.4
    elif kind == "iee":
        o["ctr"] = rng.random() < 0.5
        o["big"] = rng.random() < 0.3
        o["shared_attr"] = rng.random() < 0.5
        o["variant"] = rng.choice(["implicit", "implicit", "explicit_key1"])
        o["x"] = rng.randrange(2)
    elif kind == "bee":
        o["variant"] = rng.choice(["prdb", "kib", "header", "kib_explicit_key", "header_explicit_sw_key"])
        o["x"] = rng.randrange(2)
    elif kind == "bee_config":
        o["empty_key"] = rng.random() < 0.4
        o["reuse_config"] = rng.random() < 0.6
        o["engines"] = rng.choice(["engine0", "engine1", "both"])
        o["x"] = rng.randrange(2)
        o["export"] = rng.random() < 0.3
    elif kind == "hab_full":
        o["ws"] = rng.choice(["hab0", "hab0", "hab1"])
    elif kind == "hab_rt":
        o["variant"] = rng.choice(["implicit", "implicit", "explicit_dek"])
        o["x"] = rng.randrange(2)
        o["len"] = rng.choice([1024, 4096, 0x10000])
    elif kind == "hab":
        o["variant"] = rng.choice(["nonce", "dek", "dek"])
        o["interleave"] = rng.random() < 0.3
        o["ws"] = rng.choice(["ws0", "ws0", "ws0", "ws1"])
        o["bits"] = rng.choice([128, 192, 256])
        o["len"] = rng.choice([16, 4096, 70000])
    return o


def gen_plan(family: str, i: int, rng: random.Random, tier: str) -> dict:
    epochs = []
    for ei in range(rng.choice([1, 1, 2, 2, 3])):
        ops = [gen_op(rng) for _ in range(rng.randint(2, 8))]
        if rng.random() < 0.6:
            # placed, not left to chance: the same construction twice in a row with whatever it shares switched on
            # (one configuration dictionary, one helper object, one image object, one project folder)
            twin = gen_op(rng, allow_fork=False)
            for _ in range(50):
                if twin["op"] in ("bee_config", "sb2_config", "iee", "mbi_config", "otfad", "hab", "hab_full", "sb2_keywrap", "iee_config", "otfad_config"):
                    break
                twin = gen_op(rng, allow_fork=False)
            if twin["op"] == "bee_config":
                twin.update(empty_key=rng.random() < 0.7, reuse_config=True)
            elif twin["op"] == "sb2_config":
                twin["reuse_config"] = True
            elif twin["op"] == "iee":
                twin["shared_attr"] = True
            elif twin["op"] == "mbi_config":
                twin["reuse_object"] = rng.random() < 0.5
                twin["reuse_config"] = not twin["reuse_object"] or rng.random() < 0.5
            elif twin["op"] == "otfad":
                twin.update(export=True)
            elif twin["op"] == "otfad_config":
                twin.update(explicit_kek=False, reuse_config=True)
            at = rng.randrange(len(ops) + 1)
            ops[at:at] = [twin, copy.deepcopy(twin)]
        mods = []
        flat = []
        for o in ops:
            flat.append(o)
            if o["op"] == "fork":
                flat += [so for ch in o["children"] for so in ch] + list(o.get("parent", []))
        for o in flat:
            if NEEDS[o["op"]] not in mods:
                mods.append(NEEDS[o["op"]])
        others = [m for m in ("sb2", "mbi", "otfad", "iee", "bee", "hab", "habrt", "habfull") if m not in mods]
        rng.shuffle(others)
        mods += others[: rng.randint(0, len(others))]
        rng.shuffle(mods)
        ep = {"imports": mods, "ops": ops, "clock": rng.choice(["advance", "advance", "same", "same", "back"]) if ei else "advance"}
        epochs.append(ep)
    plan = {"epochs": epochs}
    if rng.random() < 0.3:
        plan["app_seed"] = rng.choice([0, 1234, 42])  # the application seeds the global PRNG with a constant in every run
    return plan


def families(tier: str):
    return [("hist", 160 if tier == "quick" else 12000)]


def reductions(plan: dict):
    if len(plan["epochs"]) > 1:
        yield from ddmin_lists(plan, [["epochs"]])
    for ei, ep in enumerate(plan["epochs"]):
        if len(ep["ops"]) > 1:
            yield from ddmin_lists(plan, [["epochs", ei, "ops"]])
        needed = {NEEDS[o["op"]] for o in ep["ops"]} | {NEEDS[so["op"]] for o in ep["ops"] if o["op"] == "fork" for grp in (o["children"] + [o.get("parent", [])]) for so in grp}
        extra = [m for m in ep["imports"] if m not in needed]
        if extra:
            c = copy.deepcopy(plan)
            c["epochs"][ei]["imports"] = [m for m in ep["imports"] if m in needed]
            yield c
        if ep.get("clock") != "advance":
            c = copy.deepcopy(plan)
            c["epochs"][ei]["clock"] = "advance"
            yield c
        for oi, o in enumerate(ep["ops"]):
            if o.get("dt_us"):
                c = copy.deepcopy(plan)
                c["epochs"][ei]["ops"][oi]["dt_us"] = 0
                yield c
