"""C17 epoch = one simulated interpreter lifetime (a forked child that has never imported spsdk).

Installs the entropy and clock seams, imports SPSDK modules in the order the plan gives, builds
artifacts through the public classes and reports every self-chosen slot.
"""
from __future__ import annotations

import hashlib
import os
import struct
import sys
import tempfile
import traceback

GOLDEN = os.path.join(os.path.dirname(os.path.dirname(os.path.abspath(__file__))), "golden")

MODULES = {
    "sb2": "spsdk.sbfile.sb2.images",
    "mbi": "spsdk.image.mbi.mbi",
    "otfad": "spsdk.utils.crypto.otfad",
    "iee": "spsdk.utils.crypto.iee",
    "bee": "spsdk.image.bee",
    "hab": "spsdk.image.hab.segments",
    "habrt": "spsdk.image.images",
    "habfull": "spsdk.image.hab.hab_container",
}


class Entropy:
    """Injective entropy device: draw number d never returns the same bytes as draw number d'."""

    def __init__(self, first: int) -> None:
        self.d = first
        self.first = first
        self.forks = 0
        self.log: list = []
        self.phase = "import"

    def _site(self) -> str:
        f = sys._getframe(2)
        site = "?"
        depth = 0
        while f is not None and depth < 40:
            fn = f.f_code.co_filename
            if os.sep + "spsdk" + os.sep in fn and not fn.endswith("rng.py"):
                site = f"{os.path.basename(fn)}:{f.f_code.co_name}"
                break
            f = f.f_back
            depth += 1
        return site

    def token_bytes(self, n=None) -> bytes:
        if n is None:
            n = 32
        d = self.d
        self.d += 1
        if n >= 8:
            # 0xC1 marker, 5 bytes of d, then two bytes of d's hash; bytes 9 and 13 (masked by the SB2 nonce) carry no index bits
            head = b"\xc1" + d.to_bytes(5, "big") + hashlib.sha256(b"h%d" % d).digest()[:2]
            body = b""
            i = 0
            while len(body) < n - 8:
                body += hashlib.sha256(b"e%d:%d" % (d, i)).digest()
                i += 1
            out = head + body[: n - 8]
        else:
            out = (d % (1 << (8 * n))).to_bytes(n, "big") if n else b""
        self.log.append([d, n, self.phase, self._site()])
        return out

    def token_hex(self, n=None) -> str:
        return self.token_bytes(n).hex()

    def randbelow(self, k: int) -> int:
        d = self.d
        self.d += 1
        self.log.append([d, -1, self.phase, self._site()])
        return d % k

    def urandom(self, n: int) -> bytes:
        return self.token_bytes(n)


def install(ent: Entropy, wall_us: int) -> None:
    import secrets

    from simkit.simtime import CLOCK

    CLOCK.reset()
    CLOCK.wall_offset_us = wall_us
    CLOCK.install()
    secrets.token_bytes = ent.token_bytes
    secrets.token_hex = ent.token_hex
    secrets.randbelow = ent.randbelow
    os.urandom = ent.urandom


# ----------------------------------------------------------------------------------------------
# operations; each returns {"kind":..., "slots": {name: hex}, "explicit": [names]}

KEK = bytes(range(32))


def _explicit(seed: int, n: int) -> bytes:
    return hashlib.sha256(b"explicit%d" % seed).digest()[:n].ljust(n, b"\x55")


def op_sb2(o: dict) -> dict:
    from spsdk.sbfile.sb2.images import BootImageV20, BootImageV21, SBV2xAdvancedParams

    variant = o["variant"]
    explicit = []
    kw = {}
    if variant == "params":
        kw["advanced_params"] = SBV2xAdvancedParams()
    elif variant == "partial":
        kw["advanced_params"] = SBV2xAdvancedParams(dek=_explicit(o.get("x", 0), 32))
        explicit = ["dek"]
    elif variant == "partial_nonce":
        n = bytearray(_explicit(o.get("x", 0), 16))
        n[9] &= 0x7F
        n[13] &= 0x7F
        kw["advanced_params"] = SBV2xAdvancedParams(nonce=bytes(n))
        explicit = ["nonce"]
    if o["version"] == "2.0":
        img = BootImageV20(bool(o.get("signed")), KEK, **kw)
    else:
        img = BootImageV21(KEK, **kw)
    return {
        "kind": "sb2",
        "slots": {"dek": img.dek.hex(), "mac": img.mac.hex(), "nonce": bytes(img._header.nonce).hex()},
        "explicit": explicit,
        "pair": ["dek", "nonce"],
    }


BD_TEXT = """
options {
    flags = %s;
    buildNumber = 0x1;
    productVersion = "1.00.00";
    componentVersion = "1.00.00";
    secureBinaryVersion = "2.1";
}
sources {
    myImage = "app.bin";
}
section (0) {
    load myImage > 0x1000;
}
"""


BD_KEYWRAP = """
options {
    flags = 0x8;
    buildNumber = 0x1;
    productVersion = "1.00.00";
    componentVersion = "1.00.00";
    secureBinaryVersion = "2.1";
}
sources {
}
keyblob (0) {
    (
        start = 0x08001000,
        end = 0x080013ff,
        key = "000102030405060708090A0B0C0D0E0F",
        counter = "0123456789ABCDEF",
        byteSwap = false
    )
}
section (0) {
    load 0xc0000001 > 0x10C000;
    keywrap (0) {
        load {{0102030405060708090a0b0c0d0e0f00}} > 0x08000000;
    }
}
"""


def op_sb2_keywrap(o: dict) -> dict:
    """SB2.1 from a BD file with a keywrap statement: the wrapped OTFAD key blob carries a filler SPSDK invents, so two
    builds from the same file (same key, counter and KEK) must not put the same wrapped blob into the file."""
    from spsdk.sbfile.sb2.commands import CmdLoad
    from spsdk.sbfile.sb2.images import BootImageV21

    ws = os.path.join(WORKDIR, "sb2kw" + FORK_TAG)
    os.makedirs(ws, exist_ok=True)
    bd = os.path.join(ws, "kw.bd")
    if not os.path.exists(bd):
        with open(bd, "w") as f:
            f.write(BD_KEYWRAP)
        with open(os.path.join(ws, "kek.txt"), "w") as f:
            f.write("AB" * 32)
    cfg = BootImageV21.parse_sb21_config(bd)
    kdir = os.path.join(GOLDEN, "keys")
    cfg["mainCertPrivateKeyFile"] = os.path.join(kdir, "k0_cert0_2048.pem")
    sb = BootImageV21.load_from_config(
        config=cfg,
        key_file_path=os.path.join(ws, "kek.txt"),
        signing_certificate_file_paths=[os.path.join(kdir, "root_k0_signed_cert0_noca.der.cert")],
        root_key_certificate_paths=[os.path.join(kdir, f"root_k{i}_signed_cert0_noca.der.cert") for i in range(4)],
        rkth_out_path=os.path.join(ws, "hash.bin"),
        search_paths=[ws],
    )
    blob = None
    for sec in sb.boot_sections:
        for cmd in sec:
            if isinstance(cmd, CmdLoad) and cmd.address == 0x0800_0000:
                blob = bytes(cmd.data)
    if blob is None:
        raise RuntimeError("no wrapped key blob in the built image")
    return {"kind": "sb2", "slots": {"dek": sb.dek.hex(), "mac": sb.mac.hex(), "nonce": bytes(sb.header.nonce).hex(), "wrapped_keyblob": blob.hex()}, "explicit": [], "pair": ["dek", "nonce"]}


def op_sb2_config(o: dict) -> dict:
    """SB2.1 built the way `nxpimage sb21 export` does (BD file -> parse_sb21_config -> load_from_config)."""
    from spsdk.sbfile.sb2.images import BootImageV21

    ws = os.path.join(WORKDIR, "sb2cfg" + FORK_TAG)
    os.makedirs(ws, exist_ok=True)
    bd = os.path.join(ws, "app.bd")
    if not os.path.exists(bd):
        with open(bd, "w") as f:
            f.write(BD_TEXT % "0x8008")
        with open(os.path.join(ws, "app.bin"), "wb") as f:
            f.write(bytes(range(256)) * 4)
        with open(os.path.join(ws, "kek.txt"), "w") as f:
            f.write("AB" * 32)
    if o.get("reuse_config"):
        if "sb2cfg" not in SHARED:
            SHARED["sb2cfg"] = BootImageV21.parse_sb21_config(bd)
        cfg = SHARED["sb2cfg"]
    else:
        cfg = BootImageV21.parse_sb21_config(bd)
    kdir = os.path.join(GOLDEN, "keys")
    cfg["mainCertPrivateKeyFile"] = os.path.join(kdir, "k0_cert0_2048.pem")
    sb = BootImageV21.load_from_config(
        config=cfg,
        key_file_path=os.path.join(ws, "kek.txt"),
        signing_certificate_file_paths=[os.path.join(kdir, "root_k0_signed_cert0_noca.der.cert")],
        root_key_certificate_paths=[os.path.join(kdir, f"root_k{i}_signed_cert0_noca.der.cert") for i in range(4)],
        rkth_out_path=os.path.join(ws, "hash.bin"),
        search_paths=[ws],
    )
    if o.get("export"):
        sb.export()
    return {"kind": "sb2", "slots": {"dek": sb.dek.hex(), "mac": sb.mac.hex(), "nonce": bytes(sb.header.nonce).hex()}, "explicit": [], "pair": ["dek", "nonce"]}


def op_fork(o: dict) -> dict:
    """The interpreter forks workers (os.fork, as multiprocessing's fork start method does) and every process builds
    artifacts. The operating system hands independent entropy to every process; the device models that by giving
    each forked worker its own draw numbers. Whatever the code drew *before* the fork and kept is shared memory."""
    import json as _json

    results = []
    children = []
    ent = ENT
    for k, subops in enumerate(o["children"]):
        r, w = os.pipe()
        pid = os.fork()
        if pid == 0:
            code = 0
            try:
                os.close(r)
                # a range of draw numbers no other process of the history uses: the epoch's first draw number is unique
                # per epoch (sim.py advances it by at least one), parents stay below 2**16
                ent.d = (((ent.first * 16 + ent.forks % 16) * 4 + k % 4 + 1) << 16) + 1
                import random as _random

                # CPython reseeds the global PRNG of a forked child from OS entropy (random.py registers an at-fork
                # hook bound to the real os.urandom): the same thing, from the simulated device
                _random.seed(int.from_bytes(ent.token_bytes(32), "big"))
                global FORK_TAG
                FORK_TAG = f"-w{k}"  # concurrent processes build in their own folders (sharing one is the user's race, not SPSDK's)
                arts = []
                for j, so in enumerate(subops):
                    a = OPS[so["op"]](dict(so, _index=f"{o['_index']}.w{k}.{j}"))
                    if "many" in a:
                        arts += a["many"]
                        continue
                    a["op_index"] = f"{o['_index']}.w{k}.{j}"
                    arts.append(a)
                with os.fdopen(w, "w") as f:
                    f.write(_json.dumps(arts))
            except BaseException:  # pylint: disable=broad-except
                traceback.print_exc()
                code = 3
            finally:
                os._exit(code)
        os.close(w)
        children.append((pid, r))
    ent.forks += 1
    for j, so in enumerate(o.get("parent", [])):
        a = OPS[so["op"]](dict(so, _index=f"{o['_index']}.p.{j}"))
        if "many" in a:
            results += a["many"]
            continue
        a["op_index"] = f"{o['_index']}.p.{j}"
        results.append(a)
    for pid, r in children:
        with os.fdopen(r) as f:
            txt = f.read()
        _, status = os.waitpid(pid, 0)
        if status != 0 or not txt:
            raise RuntimeError(f"forked worker failed with status {status}")
        results += _json.loads(txt)
    return {"kind": "fork", "many": results}


def op_mbi_class(o: dict) -> dict:
    from spsdk.image.mbi.mbi import create_mbi_class

    cls = create_mbi_class(o.get("cls", "encrypted_signed_ram"), o.get("family", "mimxrt595s"))
    explicit = []
    if o.get("explicit_iv"):
        obj = cls(ctr_init_vector=_explicit(o.get("x", 0), 16))
        explicit = ["ctr_init_vector"]
    else:
        obj = cls()
    return {"kind": "mbi", "slots": {"ctr_init_vector": obj.ctr_init_vector.hex()}, "explicit": explicit}


def op_mbi_config(o: dict) -> dict:
    from spsdk.image.mbi.mbi import get_mbi_class

    mbi_dir = os.path.join(GOLDEN, "mbi")
    cfg = {
        "family": o.get("family", "mimxrt595s"),
        "outputImageExecutionTarget": "RAM",
        "outputImageAuthenticationType": "Encrypted + Signed",
        "masterBootOutputFile": "out.bin",
        "inputImageFile": "app.bin",
        "outputImageExecutionAddress": "0x0",
        "enableHwUserModeKeys": False,
        "enableTrustZone": False,
        "signPrivateKey": "../keys/k0_cert0_2048.pem",
        "certBlock": "cert_v1_4x2048.yaml",
        "outputImageEncryptionKeyFile": "24e517d4ac417737235b6efc9afced8224e517d4ac417737235b6efc9afced82",
    }
    if o.get("reuse_config"):
        # a batch build keeps one configuration dictionary and builds one image after the other from it
        cfg = SHARED.setdefault("mbi_cfg", cfg)
    cls = get_mbi_class(cfg)
    if o.get("reuse_object"):
        # a batch build keeps one image object and loads one configuration after the other into it
        if "mbi_obj" not in SHARED:
            SHARED["mbi_obj"] = cls()
        obj = SHARED["mbi_obj"]
    else:
        obj = cls()
    obj.load_from_config(cfg, search_paths=[mbi_dir])
    out = {"kind": "mbi", "slots": {"ctr_init_vector": obj.ctr_init_vector.hex()}, "explicit": []}
    if o.get("export"):
        data = obj.export()
        out["export_len"] = len(data)
    return out


def op_otfad(o: dict) -> dict:
    from spsdk.utils.crypto.otfad import KeyBlob

    v = o.get("variant", "implicit")
    kw = {}
    explicit = []
    if v in ("explicit_key", "explicit_key_ctr"):
        kw["key"] = _explicit(o.get("x", 0), 16)
        explicit.append("key")
    if v == "explicit_key_ctr":
        kw["counter_iv"] = _explicit(o.get("x", 0) + 50, 8)
        explicit.append("ctr_init_vector")
    kb = KeyBlob(start_addr=0x0800_1000, end_addr=0x0800_13FF, **kw)
    slots = {"key": kb.key.hex(), "ctr_init_vector": kb.ctr_init_vector.hex()}
    if o.get("export") or explicit:
        pd = kb.plain_data()
        slots["zero_fill"] = pd[32:36].hex()
        if o.get("export_twice"):
            # the same blob serialised again (wrapped for another device): a new artifact, a new filler
            slots["zero_fill_again"] = kb.plain_data()[32:36].hex()
    return {"kind": "otfad", "slots": slots, "explicit": explicit, "pair": ["key", "ctr_init_vector"]}


def op_iee(o: dict) -> dict:
    from spsdk.utils.crypto.iee import IeeKeyBlob, IeeKeyBlobAttribute, IeeKeyBlobKeyAttributes, IeeKeyBlobLockAttributes, IeeKeyBlobModeAttributes

    mode = IeeKeyBlobModeAttributes.AesCTRWAddress if o.get("ctr") else IeeKeyBlobModeAttributes.AesXTS
    keyattr = IeeKeyBlobKeyAttributes.CTR128XTS256 if not o.get("big") else IeeKeyBlobKeyAttributes.CTR256XTS512
    if o.get("shared_attr"):
        # helper objects a caller may legitimately share between the artifacts it builds
        akey = ("iee_attr", bool(o.get("ctr")), bool(o.get("big")))
        if akey not in SHARED:
            SHARED[akey] = IeeKeyBlobAttribute(IeeKeyBlobLockAttributes.UNLOCK, keyattr, mode)
        attr = SHARED[akey]
    else:
        attr = IeeKeyBlobAttribute(IeeKeyBlobLockAttributes.UNLOCK, keyattr, mode)
    kw = {}
    explicit = []
    if o.get("variant") == "explicit_key1":
        kw["key1"] = _explicit(o.get("x", 0) + 100, attr.key1_size)
        explicit.append("key1")
    kb = IeeKeyBlob(attr, start_addr=0x3000_1000, end_addr=0x3000_8000, **kw)
    return {"kind": "iee", "slots": {"key1": bytes(kb.key1).hex(), "key2": bytes(kb.key2).hex()}, "explicit": explicit, "pair": ["key1", "key2"]}


def op_iee_config(o: dict) -> dict:
    """IEE image through the configuration interface with key1 / key2 left empty (SPSDK chooses them)."""
    from spsdk.utils.crypto.iee import IeeNxp

    td = os.path.join(WORKDIR, "iee" + FORK_TAG)
    os.makedirs(td, exist_ok=True)
    with open(os.path.join(td, "app.bin"), "wb") as f:
        f.write(bytes(range(256)) * 16)
    explicit = []
    kb = {"region_lock": False, "aes_mode": "AesCTRWAddress" if o.get("ctr") else "AesXTS", "key_size": "CTR128XTS256", "page_offset": 0, "key1": "", "key2": "", "start_address": "0x30001000", "end_address": "0x30008000"}
    if o.get("variant") == "explicit_key1":
        kb["key1"] = _explicit(o.get("x", 0) + 600, 16).hex()
        explicit.append("key1")
    cfg = {"family": "rt117x", "output_folder": os.path.join(td, "out"), "keyblob_address": "0x30000000", "data_blobs": [{"data": "app.bin", "address": "0x30001000"}], "key_blobs": [kb]}
    iee = IeeNxp.load_from_config(cfg, config_dir=td, search_paths=[td])
    if o.get("export"):
        iee.export_image()
    blob = iee[0]
    return {"kind": "iee", "slots": {"key1": bytes(blob.key1).hex(), "key2": bytes(blob.key2).hex()}, "explicit": explicit, "pair": ["key1", "key2"]}


def op_bee(o: dict) -> dict:
    from spsdk.image.bee import BeeKIB, BeeProtectRegionBlock, BeeRegionHeader

    v = o["variant"]
    if v == "prdb":
        b = BeeProtectRegionBlock()
        return {"kind": "bee_prdb", "slots": {"counter": b.counter[:12].hex()}, "explicit": []}
    if v == "kib":
        k = BeeKIB()
        return {"kind": "bee_kib", "slots": {"kib_key": k.kib_key.hex(), "kib_iv": k.kib_iv.hex()}, "explicit": [], "pair": ["kib_key", "kib_iv"]}
    if v == "kib_explicit_key":
        k = BeeKIB(kib_key=_explicit(o.get("x", 0) + 200, 16))
        return {"kind": "bee_kib", "slots": {"kib_key": k.kib_key.hex(), "kib_iv": k.kib_iv.hex()}, "explicit": ["kib_key"], "pair": ["kib_key", "kib_iv"]}
    if v == "header_explicit_sw_key":
        h = BeeRegionHeader(sw_key=_explicit(o.get("x", 0) + 300, 16))
        return {
            "kind": "bee_header",
            "slots": {"sw_key": h._sw_key.hex(), "kib_key": h._kib.kib_key.hex(), "kib_iv": h._kib.kib_iv.hex(), "counter": h._prdb.counter[:12].hex()},
            "explicit": ["sw_key"],
        }
    h = BeeRegionHeader()
    return {
        "kind": "bee_header",
        "slots": {"sw_key": h._sw_key.hex(), "kib_key": h._kib.kib_key.hex(), "kib_iv": h._kib.kib_iv.hex(), "counter": h._prdb.counter[:12].hex()},
        "explicit": [],
    }


def op_hab(o: dict) -> dict:
    from spsdk.image.hab.segments import CsfHabSegment

    if o["variant"] == "nonce":
        n = CsfHabSegment.generate_nonce(b"\0" * o.get("len", 4096))
        return {"kind": "hab_nonce", "slots": {"nonce": n.hex()}, "explicit": []}
    from spsdk.image.hab.commands.commands_enum import SecCommand
    from spsdk.image.hab.hab_config import CommandsConfig, HabConfig, OptionsConfig
    from spsdk.utils.images import BinaryImage

    length = o.get("bits", 128)
    cmds = CommandsConfig.load_from_config(
        {"sections": [{"section_id": SecCommand.INSTALL_SECRET_KEY.tag, "options": [{"SecretKey_Name": "dek.bin"}, {"SecretKey_Length": length}]}]}
    )
    cfg = HabConfig(app_image=BinaryImage("app", binary=b"\0" * 64), options=OptionsConfig(flags=0, start_address=0), commands=cmds)
    # the workspace is durable state: it survives "restarts" (epochs) of one history, like a build folder does
    td = os.path.join(WORKDIR, o.get("ws", "ws0") + FORK_TAG)
    os.makedirs(td, exist_ok=True)
    if o.get("interleave"):
        # another build of the same project runs to completion right after this one has written its key file and
        # before it takes its next step (a schedule of two concurrent builds in one folder)
        import builtins

        real_open = builtins.open
        dek_path = os.path.abspath(os.path.join(td, "dek.bin"))
        state = {"armed": True, "other": None}

        class Proxy:
            def __init__(self, f):
                self._f = f

            def __getattr__(self, name):
                return getattr(self._f, name)

            def __enter__(self):
                self._f.__enter__()
                return self

            def __exit__(self, *exc):
                r = self._f.__exit__(*exc)
                self._after()
                return r

            def close(self):
                self._f.close()
                self._after()

            def _after(self):
                if state["armed"]:
                    state["armed"] = False
                    state["other"] = CsfHabSegment.get_dek_from_config(cfg, search_paths=[td])

        def hooked(file, mode="r", *a, **kw):
            f = real_open(file, mode, *a, **kw)
            if state["armed"] and isinstance(file, (str, os.PathLike)) and any(c in mode for c in "wa") and os.path.abspath(file) == dek_path:
                return Proxy(f)
            return f

        builtins.open = hooked
        try:
            dek = CsfHabSegment.get_dek_from_config(cfg, search_paths=[td])
        finally:
            builtins.open = real_open
        arts = [{"kind": "hab_dek", "slots": {"dek": dek.hex()}, "explicit": [], "op_index": f"{o.get('_index')}.a"}]
        if state["other"] is not None:
            arts.append({"kind": "hab_dek", "slots": {"dek": state["other"].hex()}, "explicit": [], "op_index": f"{o.get('_index')}.b"})
        return {"kind": "hab_pair", "many": arts}
    dek = CsfHabSegment.get_dek_from_config(cfg, search_paths=[td])
    with open(os.path.join(td, "dek.bin"), "rb") as f:
        stored = f.read()
    return {"kind": "hab_dek", "slots": {"dek": dek.hex()}, "explicit": [], "stored_equal": stored == dek}


def op_hab_rt(o: dict) -> dict:
    """HAB-encrypted i.MX RT boot image through BootImgRT.add_image: an empty dek_key asks SPSDK to choose the key
    (as the docstring of add_image states), the nonce is self-chosen unless given."""
    from spsdk.image.images import BootImgRT

    img = BootImgRT(0x2000_0000)
    explicit = []
    dek = b""
    if o.get("variant") == "explicit_dek":
        dek = _explicit(o.get("x", 0) + 400, 16)
        explicit.append("dek")
    img.add_image(bytes(o.get("len", 1024)), address=0x2000_0000, dek_key=dek)
    return {"kind": "hab_rt", "slots": {"dek": bytes(img.dek_key).hex(), "nonce": bytes(img._nonce).hex()}, "explicit": explicit, "pair": ["dek", "nonce"]}


def op_bee_config(o: dict) -> dict:
    """BEE image the way `nxpimage bee export` builds it: the user gives the key, SPSDK chooses counter and KIB."""
    from spsdk.image.bee import BeeNxp

    td = os.path.join(WORKDIR, "bee" + FORK_TAG)
    os.makedirs(td, exist_ok=True)
    with open(os.path.join(td, "app.bin"), "wb") as f:
        f.write(bytes(range(256)) * 8)
    sel = o.get("engines", "engine0")
    eng = []
    empty_key = bool(o.get("empty_key"))  # an empty user key asks SPSDK to choose the SW key as well
    for i in ([0, 1] if sel == "both" else [1] if sel == "engine1" else [0]):
        # each engine protects its own region (a build that selects one engine never collides with what another build,
        # earlier in the same process, configured for the other one)
        eng.append({"bee_cfg": {"user_key": "" if empty_key else _explicit(o.get("x", 0) + 500, 16).hex(), "protected_region": [{"start_address": 0x6000_1000 + i * 0x1000, "length": 0x400, "protected_level": 0}]}})
    cfg = {"input_binary": "app.bin", "engine_selection": sel, "base_address": 0x6000_1000, "bee_engine": eng}
    if empty_key and o.get("reuse_config"):
        # the caller builds several images from one configuration dictionary
        cfg = SHARED.setdefault(("bee_cfg", sel), cfg)
    bee = BeeNxp.load_from_config(cfg, search_paths=[td])
    slots = {}
    pairs = []
    for i, h in enumerate(bee.headers):
        if h is None:
            continue
        slots[f"user_key{i}"] = h._sw_key.hex()
        slots[f"counter{i}"] = h._prdb.counter[:12].hex()
        slots[f"kib_key{i}"] = h._kib.kib_key.hex()
        slots[f"kib_iv{i}"] = h._kib.kib_iv.hex()
    if o.get("export"):
        bee.export_image()
    return {"kind": "bee_config", "slots": slots, "explicit": [] if empty_key else [k for k in slots if k.startswith("user_key")]}


def op_otfad_config(o: dict) -> dict:
    """OTFAD image the way `nxpimage otfad export` builds it: the blob keys are given, the KEK is left empty (SPSDK
    chooses it) or given; one or two key blobs; optionally a configuration dictionary used for several builds."""
    from spsdk.utils.crypto.otfad import OtfadNxp

    td = os.path.join(WORKDIR, "otfadcfg" + FORK_TAG)
    os.makedirs(td, exist_ok=True)
    with open(os.path.join(td, "app.bin"), "wb") as f:
        f.write(bytes(range(256)) * 16)
    x = o.get("x", 0)
    empty_kek = not o.get("explicit_kek")
    blobs = []
    for i in range(o.get("nblobs", 1)):
        blobs.append({"start_address": hex(0x0800_1000 + i * 0x1000), "end_address": hex(0x0800_13FF + i * 0x1000), "aes_key": "0x" + _explicit(x + 700 + i, 16).hex(), "aes_ctr": "0x" + _explicit(x + 750 + i, 8).hex()})
    cfg = {"family": o.get("family", "mimxrt595s"), "output_folder": os.path.join(td, "out"), "kek": "" if empty_kek else _explicit(x + 790, 16).hex(), "otfad_table_address": "0x08000000", "data_blobs": [{"data": "app.bin", "address": "0x08001000"}], "key_blobs": blobs}
    if empty_kek and o.get("reuse_config"):
        cfg = SHARED.setdefault(("otfad_cfg", o.get("nblobs", 1), o.get("family")), cfg)
    otfad = OtfadNxp.load_from_config(cfg, config_dir=td, search_paths=[td])
    if o.get("export"):
        otfad.export_image()
        otfad.encrypt_key_blobs(otfad.kek)
    return {"kind": "otfad_config", "slots": {"kek": bytes(otfad.kek).hex()}, "explicit": [] if empty_kek else ["kek"]}


def op_hab_full(o: dict) -> dict:
    """A complete encrypted HAB image the way `nxpimage hab export` builds it (BD configuration -> HabContainer.
    load_from_config -> export): SPSDK chooses the DEK (written to the project folder) and the nonce."""
    import shutil

    from spsdk.image.hab.hab_container import HabContainer

    ws = os.path.join(WORKDIR, o.get("ws", "hab0") + FORK_TAG)
    if not os.path.isdir(ws):
        shutil.copytree(os.path.join(GOLDEN, "hab"), ws)
    cfg = HabContainer.load_configuration(os.path.join(ws, "config.bd"), [os.path.join(ws, "evkmimxrt1064_iled_blinky_SDRAM.s19")], search_paths=[ws])
    hab = HabContainer.load_from_config(cfg, search_paths=[ws])
    hab.export()
    csf = hab.csf_segment
    with open(os.path.join(ws, "gen_hab_encrypt", "evkmimxrt1064_iled_blinky_SDRAM_hab_dek.bin"), "rb") as f:
        stored = f.read()
    return {"kind": "hab_full", "slots": {"dek": bytes(csf.dek).hex(), "nonce": bytes(csf.nonce).hex()}, "explicit": [], "pair": ["dek", "nonce"], "stored_equal": stored == bytes(csf.dek)}


WORKDIR = tempfile.gettempdir()
FORK_TAG = ""

SHARED: dict = {}
ENT = None

OPS = {"sb2": op_sb2, "sb2_config": op_sb2_config, "fork": op_fork, "mbi_class": op_mbi_class, "mbi_config": op_mbi_config, "otfad": op_otfad, "iee": op_iee, "bee": op_bee, "hab": op_hab, "hab_rt": op_hab_rt, "bee_config": op_bee_config, "iee_config": op_iee_config, "sb2_keywrap": op_sb2_keywrap, "hab_full": op_hab_full, "otfad_config": op_otfad_config}


def run_epoch(spec: dict) -> dict:
    """Runs in the forked child. spec: first_draw, wall_us, imports[], ops[]."""
    global WORKDIR, ENT
    WORKDIR = spec["workdir"]
    ent = Entropy(spec["first_draw"])
    ENT = ent
    install(ent, spec["wall_us"])
    import importlib
    import logging
    import random as _random

    # an interpreter seeds its global (non-cryptographic) PRNG from OS entropy when it starts; an application may then
    # seed it with a constant for its own purposes (reproducible shuffles, tests). Secrets must not depend on it.
    _random.seed(int.from_bytes(ent.token_bytes(32), "big"))
    if spec.get("app_seed") is not None:
        _random.seed(spec["app_seed"])

    logging.disable(logging.CRITICAL)
    out = {"artifacts": [], "errors": []}
    try:
        for name in spec["imports"]:
            importlib.import_module(MODULES[name])
        import spsdk

        repo = os.environ.get("VERIF_REPO", "/repo")
        assert os.path.realpath(spsdk.__file__).startswith(os.path.realpath(repo) + os.sep), spsdk.__file__
        import spsdk.crypto.rng as rng

        tb = getattr(rng, "token_bytes", None)
        out["seam_ok"] = getattr(tb, "__self__", None) is ent
        from simkit.simtime import CLOCK

        for k, o in enumerate(spec["ops"]):
            ent.phase = f"op{k}"
            CLOCK.advance(o.get("dt_us", 0))
            try:
                o = dict(o, _index=k)
                art = OPS[o["op"]](o)
                if "many" in art:
                    out["artifacts"] += art["many"]
                else:
                    art["op_index"] = k
                    out["artifacts"].append(art)
            except Exception as exc:  # pylint: disable=broad-except
                out["errors"].append([k, o["op"], f"{type(exc).__name__}: {exc}", traceback.format_exc()[-1500:]])
            ent.phase = "idle"
    except BaseException as exc:  # pylint: disable=broad-except
        out["fatal"] = f"{type(exc).__name__}: {exc}\n{traceback.format_exc()[-2000:]}"
    out["draws"] = ent.log
    out["next_draw"] = ent.d
    try:
        from simkit.simtime import CLOCK as _C

        out["clock"] = {"now_us": _C.now_us, "sleeps": _C.sleeps, "slept_us": _C.slept_us}
    except Exception:  # pylint: disable=broad-except
        pass
    return out
