"""C11 — registers as independent bit-vectors: seeded operation histories against a bit-vector model.

No seam exists or is needed (registers.py touches no file, clock, entropy or thread once the spec
is loaded); the fault set is empty. The simulator contributes histories, the reference model,
shrinking and replay.
"""
from __future__ import annotations

import copy
import random

from simkit.core import EventLog, HarnessError, ddmin_lists, digest

PROP = "C11"
ISOLATE_RUNS = True  # every run in a forked copy of the worker (simkit.core.run_one)
LEVEL = "exploration"
BUDGET_S = {"quick": 300, "thorough": 1500}
CHUNK = 200
RULE = (
    "each run = a generated register layout (1..6 registers of 8..512 bits, bit-fields partitioning each register with "
    "hidden gaps, enums, shift-right config processors, grouped registers in normal / reversed sub-register order, "
    "reversed byte order on groups, both base endiannesses) and a history of 1..40 operations (register / bit-field / "
    "enum writes with boundary values, resets, export->parse, get_config->load_yml_config, read-only queries); after every "
    "step the object is compared with a bit-vector reference model. Non-trivial = >=2 state-changing operations; distinct "
    "= distinct (layout signature, -, operation-shape signature) pairs counted with a set. No fault is injected (fault set empty)."
)
COMPONENTS = {"real": ["spsdk.utils.registers (Registers, Register, RegsBitField, RegsEnum, config processors)", "spsdk.fuses.fuse_registers (FuseRegisters, FuseRegister) for a quarter of the layouts", "spsdk.utils.misc value_to_int / value_to_bytes"], "stub": ["none (the device database lookup is bypassed by loading a generated specification through _load_from_spec)"]}
MEASURES = {"distinct_schedules": "distinct register layouts (signature of widths, bit-field partition, enums, shifts, groups)", "distinct_states": "not measured (0)", "sim_time_s": "no clock in this code"}
ASSUMPTIONS = [
    "generated specifications follow the real ones: bit-fields partition the register, gaps are unnamed hidden fields, 'reversed' appears on group registers only",
    "alternative widths: only the alt_set operation judges them (group zeroed first, then a value selecting one of the widths: read-back, sub-register placement, length of the bytes / hex views); the byte-reversed whole-group view of such groups is not value-predicted elsewhere",
    "negative integers are treated as values that do not fit an unsigned bit-vector",
]

R = None


def worker_init() -> None:
    global R
    if R is not None:
        return
    import logging

    logging.disable(logging.CRITICAL)
    from spsdk.exceptions import SPSDKError
    from spsdk.utils import registers as regs
    from spsdk.utils.misc import Endianness

    from simkit.core import assert_repo_spsdk

    assert_repo_spsdk()

    class NS:
        pass

    R = NS()
    from spsdk.fuses.fuse_registers import FuseRegisters

    R.FuseRegisters = FuseRegisters
    R.regs = regs
    R.SPSDKError = SPSDKError
    R.Endianness = Endianness
    from spsdk.utils.misc import BinaryPattern

    R.BinaryPattern = BinaryPattern


# ----------------------------------------------------------------------------------------------
# layout -> spec


def build_spec(layout: dict):
    groups = []
    spec_regs = []
    for r in layout["regs"]:
        sr = {"id": r["uid"], "name": r["name"], "offset_int": hex(r["offset"]), "reg_width": r["width"], "description": "d"}
        if layout.get("fuse"):
            sr["index_int"] = hex(int(r["uid"][1:]))
            sr["shadow_reg_offset_int"] = hex(r["offset"])
        if r.get("reset"):
            sr["reset_value_int"] = hex(r["reset"])
        bfs = []
        for b in r.get("bitfields", []):
            sb = {"id": b["uid"], "width": b["width"], "description": "d"}
            if not b.get("hidden"):
                sb["name"] = b["name"]
            if b.get("reset"):
                sb["reset_value_int"] = hex(b["reset"])
            if b.get("shift"):
                sb["config_preprocess"] = f"SHIFT_RIGHT:COUNT={b['shift']}"
            if b.get("enums"):
                sb["values"] = [{"name": e[0], "value": hex(e[1]), "description": "e"} for e in b["enums"]]
            bfs.append(sb)
        if bfs:
            sr["bitfields"] = bfs
        spec_regs.append(sr)
    for g in layout.get("groups", []):
        gd = {"uid": g["uid"], "name": g["name"], "sub_regs": list(g["sub_regs"]), "reversed": bool(g.get("reversed")), "reverse_subregs_order": bool(g.get("reverse_subregs_order"))}
        if g.get("hexstring"):
            gd["config_as_hexstring"] = True
        if g.get("alt_widths"):
            gd["alternative_widths"] = list(g["alt_widths"])
        groups.append(gd)
    return {"groups": [{"group": {"name": "G"}, "registers": spec_regs}]}, groups


def make_registers(layout: dict):
    spec, groups = build_spec(layout)
    end = R.Endianness.BIG if layout["endianness"] == "big" else R.Endianness.LITTLE
    if layout.get("fuse"):
        obj = R.FuseRegisters(family="verif-none", base_endianness=end)
    else:
        obj = R.regs.Registers(family="verif-none", feature="none", base_endianness=end)
    if len(obj._registers) != 0:
        raise HarnessError("a Registers object for an unknown family is expected to start empty")
    obj._load_from_spec(spec, groups)
    for r in layout["regs"]:
        if r.get("reverse"):
            obj.get_reg(r["uid"]).reverse = True
    return obj


# ----------------------------------------------------------------------------------------------
# reference model


def bswap(v: int, nbytes: int) -> int:
    return int.from_bytes(v.to_bytes(nbytes, "big"), "little")


class Model:
    def __init__(self, layout: dict) -> None:
        self.layout = layout
        self.leaf = {r["uid"]: r for r in layout["regs"]}
        self.group_of = {}
        for g in layout.get("groups", []):
            for u in g["sub_regs"]:
                self.group_of[u] = g
        self.reset = {r["uid"]: self.reset_of(r) for r in layout["regs"]}
        self.val = dict(self.reset)

    @staticmethod
    def reset_of(r: dict) -> int:
        v = r.get("reset", 0)
        off = 0
        for b in r.get("bitfields", []):
            if b.get("reset"):
                mask = ((1 << b["width"]) - 1) << off
                v = (v & ~mask) | ((b["reset"] << off) & mask)
            off += b["width"]
        return v

    def top_level(self) -> list:
        """Top level registers in object order: ('reg', uid) or ('group', gdict)."""
        out = []
        seen = set()
        for r in self.layout["regs"]:
            g = self.group_of.get(r["uid"])
            if g is None:
                out.append(("reg", r))
            elif g["uid"] not in seen:
                seen.add(g["uid"])
                out.append(("group", g))
        return out

    def group_width(self, g) -> int:
        return sum(self.leaf[u]["width"] for u in g["sub_regs"])

    def group_raw(self, g) -> int:
        w = self.leaf[g["sub_regs"][0]]["width"]
        total = self.group_width(g)
        v = 0
        for j, u in enumerate(g["sub_regs"]):
            pos = total - (j + 1) * w if g.get("reverse_subregs_order") else j * w
            v |= self.val[u] << pos
        return v

    def group_get(self, g, raw: bool) -> int:
        v = self.group_raw(g)
        if g.get("reversed") and not raw:
            v = bswap(v, self.group_width(g) // 8)
        return v

    def group_set(self, g, value: int, raw: bool) -> None:
        total = self.group_width(g)
        if g.get("reversed") and not raw:
            value = bswap(value, total // 8)
        w = self.leaf[g["sub_regs"][0]]["width"]
        for j, u in enumerate(g["sub_regs"]):
            pos = total - (j + 1) * w if g.get("reverse_subregs_order") else j * w
            self.val[u] = (value >> pos) & ((1 << w) - 1)

    def ext(self, r: dict) -> int:
        """The external view of a register's stored value (byte-reversed for a register with reversed byte order)."""
        v = self.val[r["uid"]]
        return bswap(v, r["width"] // 8) if r.get("reverse") else v

    def bf_get(self, r: dict, bi: int) -> int:
        off = sum(b["width"] for b in r["bitfields"][:bi])
        b = r["bitfields"][bi]
        return ((self.ext(r) >> off) & ((1 << b["width"]) - 1)) << b.get("shift", 0)

    def bf_store(self, r: dict, bi: int, stored: int) -> None:
        off = sum(b["width"] for b in r["bitfields"][:bi])
        b = r["bitfields"][bi]
        mask = ((1 << b["width"]) - 1) << off
        e = (self.ext(r) & ~mask) | ((stored << off) & mask)
        self.val[r["uid"]] = bswap(e, r["width"] // 8) if r.get("reverse") else e


# ----------------------------------------------------------------------------------------------
# comparison of the object with the model


def find_reg(obj, uid: str):
    return obj.get_reg(uid)


def compare(obj, m: Model, label: str) -> list:
    """Returns a list of (site, message) differences between the object and the model."""
    diffs = []
    for r in m.layout["regs"]:
        reg = find_reg(obj, r["uid"])
        want = m.val[r["uid"]]
        try:
            got = reg.get_value(raw=True)
            reg.get_value(raw=False)
        except R.SPSDKError as exc:
            diffs.append(("register-value", f"{label}: register {r['name']} cannot be read: {type(exc).__name__}: {exc}"))
            continue
        if got != want:
            diffs.append(("register-value", f"{label}: register {r['name']} raw value {got:#x}, model {want:#x}"))
        got2 = reg.get_value(raw=False)
        if got2 != m.ext(r):
            diffs.append(("register-value", f"{label}: register {r['name']} value {got2:#x}, model {m.ext(r):#x}"))
        for bi, b in enumerate(r.get("bitfields", [])):
            bf = reg.get_bitfield(b["uid"])
            gv = bf.get_value()
            wv = m.bf_get(r, bi)
            if gv != wv:
                diffs.append(("bitfield-value", f"{label}: bit-field {r['name']}.{b['uid']} reads {gv:#x}, model {wv:#x}"))
    for g in m.layout.get("groups", []):
        greg = find_reg(obj, g["uid"])
        for raw in (True, False):
            if g.get("alt_widths") and not raw:
                continue  # the width used for the byte reversal depends on the value; judged by the alt_set operation
            try:
                got = greg.get_value(raw=raw)
            except R.SPSDKError as exc:
                diffs.append(("group-view", f"{label}: group {g['name']} value(raw={raw}) raises {type(exc).__name__}: {exc}"))
                continue
            want = m.group_get(g, raw)
            if got != want:
                diffs.append(("group-view", f"{label}: group {g['name']} value(raw={raw}) {got:#x}, model {want:#x}"))
    return diffs


def snapshot(obj) -> list:
    out = []
    for reg in obj._registers:
        out.append(
            [
                reg.name,
                reg.uid,
                reg.offset,
                reg.width,
                reg.get_value(raw=True),
                list(reg._alias_names),
                [[b.uid, b.name, b.offset, b.width, b.reset_value] for b in reg._bitfields],
                [[s.name, s.uid, s.get_value(raw=True), [[b.uid, b.offset, b.width] for b in s._bitfields]] for s in reg.sub_regs],
                reg._reset_value,
            ]
        )
    return out


# ----------------------------------------------------------------------------------------------
# one history


def value_of(vs, width: int) -> tuple:
    """Plan value spec -> (python value to pass, integer meaning or None if not an int)."""
    kind = vs[0]
    top = 1 << width
    if kind == "zero":
        v = 0
    elif kind == "one":
        v = 1
    elif kind == "max":
        v = top - 1
    elif kind == "pow":
        v = top
    elif kind == "pow1":
        v = top + 1
    elif kind == "big":
        v = top * 3 + 5
    elif kind == "neg":
        v = -1 - vs[1] % 5
    elif kind == "rnd":
        v = vs[1] % top
    elif kind == "bit":
        v = 1 << (vs[1] % width)
    else:
        raise HarnessError(f"value spec {vs}")
    form = vs[2] if len(vs) > 2 else "int"
    if form == "hex":
        return (hex(v) if v >= 0 else str(v)), v
    if form == "dec":
        return str(v), v
    if form == "bin" and v >= 0:
        return "0b" + bin(v)[2:], v
    if form == "hexu" and v >= 0:
        return "0X" + format(v, "X"), v
    if form == "binu" and v >= 0:
        return "0B" + bin(v)[2:], v
    return v, v


class Run:
    def __init__(self, plan: dict) -> None:
        self.plan = plan
        self.records = []
        self.log = EventLog(keep=0)
        self.probes: dict = {}
        self.trace = []

    def violation(self, oracle, site, msg, detail=None):
        self.records.append({"oracle": oracle, "site": site, "msg": msg, "detail": detail})

    def probe(self, n):
        self.probes[n] = self.probes.get(n, 0) + 1

    def attempt(self, fn, fits: bool, label: str, site_kind: str) -> str:
        """Call a mutator. Returns 'ok' | 'rejected'. Flags undocumented exceptions and wrong acceptance."""
        try:
            fn()
        except R.SPSDKError:
            if fits:
                self.violation("valid-write-rejected", site_kind, f"{label}: a value that fits was rejected")
            else:
                self.probe("out_of_range_rejected")
            return "rejected"
        except Exception as exc:  # pylint: disable=broad-except
            if fits:
                self.violation("undocumented-exception", f"{site_kind}:{type(exc).__name__}", f"{label}: raised {type(exc).__name__}: {exc}")
            else:
                self.violation("undocumented-exception", f"{site_kind}:{type(exc).__name__}:out-of-range", f"{label}: an out-of-range value raised {type(exc).__name__} instead of an SPSDK error")
            return "rejected"
        if not fits:
            self.violation("out-of-range-accepted", site_kind, f"{label}: a value that does not fit was accepted")
        return "ok"

    def execute(self) -> dict:  # noqa: C901 pylint: disable=too-many-branches,too-many-statements,too-many-locals
        plan = self.plan
        layout = plan["layout"]
        try:
            obj = make_registers(layout)
        except R.SPSDKError as exc:
            raise HarnessError(f"generated layout rejected by SPSDK: {exc}") from exc
        m = Model(layout)
        for site, msg in compare(obj, m, "after load"):
            self.violation("load", site, msg)
        if self.records:
            return self.result(0)
        changes = 0
        for k, op in enumerate(plan["ops"]):
            try:
                obj, changes = self.step(k, op, obj, m, layout, changes)
            except R.SPSDKError as exc:
                # an SPSDK error escaping from a place where none is expected (a getter, export, a query helper ...)
                self.violation("unexpected-error", f"{op['op']}:{type(exc).__name__}", f"step {k} {op['op']}: {type(exc).__name__}: {exc}")
                obj = self.rebuild(layout, m)
            if len(self.records) > 12:
                break
        return self.result(changes)

    def step(self, k, op, obj, m, layout, changes):  # noqa: C901 pylint: disable=too-many-branches,too-many-statements,too-many-locals
        if True:
            name = op["op"]
            before = len(self.records)
            label = f"step {k} {name}"
            if name == "reg_set":
                r = layout["regs"][op["reg"] % len(layout["regs"])]
                if (m.group_of.get(r["uid"]) or {}).get("alt_widths"):
                    return obj, changes
                pv, iv = value_of(op["val"], r["width"])
                fits = 0 <= iv < (1 << r["width"])
                raw = bool(op.get("raw"))
                reg = find_reg(obj, r["uid"])
                label += f"({r['name']}, {pv!r}, raw={raw})"
                res = self.attempt(lambda: reg.set_value(pv, raw=raw), fits, label, "Register.set_value" + (":negative" if iv < 0 else ""))
                if res == "ok" and fits:
                    m.val[r["uid"]] = bswap(iv, r["width"] // 8) if (r.get("reverse") and not raw) else iv
                    changes += 1
                elif res == "ok":
                    self.resync(obj, m)
            elif name == "group_set":
                if not layout.get("groups"):
                    return obj, changes
                g = layout["groups"][op["group"] % len(layout["groups"])]
                if g.get("alt_widths"):
                    return obj, changes
                w = m.group_width(g)
                pv, iv = value_of(op["val"], w)
                fits = 0 <= iv < (1 << w)
                raw = bool(op.get("raw"))
                greg = find_reg(obj, g["uid"])
                label += f"({g['name']}, {pv!r}, raw={raw})"
                res = self.attempt(lambda: greg.set_value(pv, raw=raw), fits, label, "Register.set_value:group" + (":negative" if iv < 0 else ""))
                if res == "ok" and fits:
                    m.group_set(g, iv, raw)
                    changes += 1
                elif res == "ok":
                    self.resync(obj, m)
            elif name == "alt_set":
                cands = [g for g in layout.get("groups", []) if g.get("alt_widths")]
                if not cands:
                    return obj, changes
                g = cands[op["group"] % len(cands)]
                total = m.group_width(g)
                w = m.leaf[g["sub_regs"][0]]["width"]
                alts = sorted(g["alt_widths"])
                target = (alts + [total])[op["which"] % (len(alts) + 1)]
                # a value whose byte count selects `target`: larger than the next smaller alternative, fitting `target`
                lower = max([a for a in alts if a < target], default=0)
                kind = op["val"][0]
                if kind in ("max", "pow", "pow1", "big"):
                    v = (1 << target) - 1 - (op["val"][1] % 3)
                elif kind in ("bit", "one", "zero"):
                    v = 1 << (target - 1 - (op["val"][1] % 8))
                else:
                    v = (op["val"][1] * 0x9E3779B97F4A7C15 + 1) % (1 << target)
                    v |= 1 << (lower + (op["val"][1] % max(1, target - lower)))
                # the width is selected by the value's byte count, separately for the stored (possibly byte-reversed)
                # and the external view; only values whose top and bottom byte (within `target`) are both non-zero
                # select the same width in both views - anything else is not well defined and is not judged
                v |= 1
                if v < (1 << (target - 8)):
                    v |= 1 << (target - 1 - (op["val"][1] % 8))
                nbytes = max(1, (v.bit_length() + 7) // 8)
                A = next((a for a in alts if nbytes <= a // 8), total)
                greg = find_reg(obj, g["uid"])
                label += f"({g['name']}, {v:#x}: {nbytes} bytes -> width {A} of {alts}+[{total}])"
                try:
                    for u in g["sub_regs"]:  # (writing 0 to the group selects the smallest width and clears only that part)
                        find_reg(obj, u).set_value(0, raw=True)
                        m.val[u] = 0
                    greg.set_value(v, raw=False)
                    x = bswap(v, A // 8) if g.get("reversed") else v
                    for j, u in enumerate(g["sub_regs"][: A // w]):
                        pos = A - (j + 1) * w if g.get("reverse_subregs_order") else j * w
                        m.val[u] = (x >> pos) & ((1 << w) - 1)
                    back = greg.get_value(raw=False)
                    if back != v:
                        self.violation("alternative-width", "read-back", f"{label}: reads back {back:#x}")
                    nb = len(greg.get_bytes_value(raw=False))
                    if nb != A // 8:
                        self.violation("alternative-width", "bytes-view-length", f"{label}: bytes view has {nb} bytes, the value selects the {A}-bit width")
                    hx = greg.get_hex_value(raw=False)
                    digits = len(hx[2:] if hx.startswith("0x") else hx)
                    if digits != A // 4:
                        self.violation("alternative-width", "hex-view-length", f"{label}: hex view has {digits} digits, the value selects the {A}-bit width")
                    changes += 1
                    for site, msg in compare(obj, m, f"after {label}"):
                        self.violation("alternative-width", "placement:" + site, msg)
                    # the file keeps its size whatever width the value selects, and export -> parse restores it
                    data = obj.export()
                    fresh = make_registers(layout)
                    full = len(fresh.export())
                    if len(data) != full:
                        self.violation("alternative-width", "export-length", f"{label}: the export has {len(data)} bytes, the register file has {full}")
                    else:
                        # (a short value and the full-width value with the same leading bytes export to the same bytes, so
                        # the values themselves cannot both come back; what must hold is that the bytes are stable)
                        fresh.parse(data)
                        if fresh.export() != data:
                            self.violation("alternative-width", "export-parse:re-export", f"{label}: exporting the parsed twin gives different bytes")
                    # leave the group zeroed: generic operations do not predict values of alternative-width groups
                    for u in g["sub_regs"]:
                        find_reg(obj, u).set_value(0, raw=True)
                        m.val[u] = 0
                except R.SPSDKError as exc:
                    self.violation("alternative-width", "rejected", f"{label}: a value that fits was rejected: {exc}")
                    obj = self.rebuild(layout, m)
                except Exception as exc:  # pylint: disable=broad-except
                    self.violation("undocumented-exception", f"alt_set:{type(exc).__name__}", f"{label}: raised {type(exc).__name__}: {exc}")
                    obj = self.rebuild(layout, m)
            elif name in ("bf_set", "bf_enum"):
                cands = [r for r in layout["regs"] if r.get("bitfields")]
                if not cands:
                    return obj, changes
                r = cands[op["reg"] % len(cands)]
                bi = op["bf"] % len(r["bitfields"])
                b = r["bitfields"][bi]
                reg = find_reg(obj, r["uid"])
                bf = reg.get_bitfield(b["uid"])
                sh = b.get("shift", 0)
                if name == "bf_enum" and op.get("by") == "name" and b.get("enums"):
                    en = b["enums"][op.get("e", 0) % len(b["enums"])]
                    label += f"({r['name']}.{b['uid']}, enum {en[0]})"
                    res = self.attempt(lambda: bf.set_enum_value(en[0]), True, label, "RegsBitField.set_enum_value")
                    if res == "ok":
                        m.bf_store(r, bi, en[1] >> sh)
                        changes += 1
                else:
                    pv, iv = value_of(op["val"], b["width"])
                    if sh and iv >= 0:
                        iv <<= sh  # values for a shifted field are written in the external (shifted) domain
                        pv = iv if isinstance(pv, int) else (hex(iv) if str(pv).startswith("0x") else (str(iv) if not str(pv).startswith("0b") else "0b" + bin(iv)[2:]))
                    stored = iv >> sh if iv >= 0 else iv
                    fits = 0 <= stored < (1 << b["width"])
                    site = ("RegsBitField.set_value" if name == "bf_set" else "RegsBitField.set_enum_value") + (":negative" if iv < 0 else "")
                    if name == "bf_set":
                        label += f"({r['name']}.{b['uid']}, {pv!r})"
                        res = self.attempt(lambda: bf.set_value(pv, raw=bool(op.get("raw")) and not r.get("reverse")), fits, label, site)  # (raw on a byte-reversed register writes the stored view, which the fields are not read from: not generated)
                    else:
                        arg = pv
                        if op.get("by") == "rawstr" and not r.get("reverse"):  # (RAW: writes the stored view, see bf_set)
                            arg = "RAW:" + (hex(stored) if stored >= 0 else str(stored))
                        elif op.get("by") == "str" and isinstance(pv, int):
                            arg = hex(pv) if pv >= 0 else str(pv)
                        label += f"({r['name']}.{b['uid']}, {arg!r})"
                        named = [e for e in b.get("enums", []) if isinstance(arg, str) and e[0] == arg]
                        if named:
                            # the string is the name of an enum of this field: the name wins over its numeric reading
                            stored = named[0][1] >> sh
                            fits = True
                            self.probe("enum_name_looks_like_number")
                        res = self.attempt(lambda: bf.set_enum_value(arg), fits, label, site)
                    if res == "ok" and fits:
                        m.bf_store(r, bi, stored)
                        changes += 1
                    elif res == "ok":
                        self.resync(obj, m)
            elif name == "reg_reset":
                r = layout["regs"][op["reg"] % len(layout["regs"])]
                find_reg(obj, r["uid"]).reset_value(raw=True)
                m.val[r["uid"]] = m.reset[r["uid"]]
                changes += 1
            elif name == "reset_all":
                obj.reset_values()
                m.val = dict(m.reset)
                changes += 1
            elif name == "deepcopy":
                # a deep copy is an object of its own: writes to the copy do not reach the original and vice versa
                import copy as _copy

                twin = _copy.deepcopy(obj)
                for site, msg in compare(twin, m, f"{label}: the deep copy"):
                    self.violation("deepcopy", site, msg)
                m2 = _copy.deepcopy(m)
                alt_subs = {u for g in layout.get("groups", []) if g.get("alt_widths") for u in g["sub_regs"]}
                for r in layout["regs"]:
                    if r["uid"] in alt_subs:
                        continue  # (what a reset means for a group with alternative widths is not stated; it stays zero)
                    nv = (m.val[r["uid"]] ^ ((1 << r["width"]) - 1)) if op.get("flip") else 0
                    try:
                        find_reg(twin, r["uid"]).set_value(nv, raw=True)
                        m2.val[r["uid"]] = nv
                    except R.SPSDKError:
                        pass
                if op.get("reset_copy"):
                    twin.reset_values()
                    m2.val = dict(m2.reset)
                for site, msg in compare(obj, m, f"{label}: the original after the copy was written"):
                    self.violation("deepcopy", "original:" + site, msg)
                for site, msg in compare(twin, m2, f"{label}: the copy after it was written"):
                    self.violation("deepcopy", "copy:" + site, msg)
                self.probe("deepcopy")
            elif name == "export_pattern":
                # the fill pattern belongs to the gaps between registers, never to the bytes of a register
                data0 = obj.export()
                data1 = obj.export(pattern=R.BinaryPattern("ones"))
                if len(data0) != len(data1):
                    self.violation("export-pattern", "length", f"{label}: the export has {len(data1)} bytes with a fill pattern and {len(data0)} without")
                else:
                    base = len(data0) - max(r["offset"] + r["width"] // 8 for r in layout["regs"])  # (0: the image starts at offset 0)
                    covered = set()
                    for r in layout["regs"]:
                        covered.update(range(r["offset"], r["offset"] + r["width"] // 8))
                    bad = [i for i in range(len(data0)) if (i in covered and data0[i] != data1[i]) or (i not in covered and base == 0 and data1[i] != 0xFF)]
                    if bad:
                        self.violation("export-pattern", "register-bytes" if bad[0] in covered else "gap-bytes", f"{label}: byte {bad[0]} of the export is {data1[bad[0]]:#04x} with the fill pattern 'ones' and {data0[bad[0]]:#04x} without ({'inside a register' if bad[0] in covered else 'in a gap'})")
                    twin = make_registers(layout)
                    twin.parse(data1)
                    if not any(g.get("alt_widths") for g in layout.get("groups", [])):
                        for site, msg in compare(twin, m, f"{label}: twin after parse(export(pattern=ones))"):
                            self.violation("export-pattern", "parse:" + site, msg)
                self.probe("export_pattern")
            elif name == "export_parse":
                data = obj.export()
                twin = make_registers(layout)
                twin.parse(data)
                for site, msg in compare(twin, m, f"{label}: twin after parse(export())"):
                    self.violation("export-parse", site, msg)
                data2 = twin.export()
                if data2 != data:
                    self.violation("export-parse", "re-export", f"{label}: exporting the parsed twin gives different bytes")
                self.probe("export_parse")
            elif name == "parse_short":
                data = obj.export()
                tops = []
                for kind, item in m.top_level():
                    if kind == "reg":
                        tops.append((item["offset"], item["width"] // 8, [item["uid"]]))
                    else:
                        tops.append((m.leaf[item["sub_regs"][0]]["offset"], m.group_width(item) // 8, list(item["sub_regs"])))
                if op.get("inside"):
                    off, nb, _u = tops[op["r"] % len(tops)]
                    n = off + (op["r"] >> 8) % nb if nb > 1 else off
                else:
                    n = op["r"] % (len(data) + 1)
                n = min(n, len(data))
                # a short input sets the registers it contains completely and leaves the others alone
                want = Model(layout)
                for off, nb, uids in tops:
                    if n < off + nb:
                        break
                    for u in uids:
                        want.val[u] = m.val[u]
                twin = make_registers(layout)
                label += f"({n} of {len(data)} bytes)"
                try:
                    twin.parse(data[:n])
                    for site, msg in compare(twin, want, f"{label}: fresh twin after parsing a prefix of the export"):
                        self.violation("parse-short", site, msg)
                    obj.parse(data[:n])  # into the object itself: nothing may change
                except R.SPSDKError as exc:
                    self.violation("parse-short", "rejected", f"{label}: parsing a prefix of the export raised {type(exc).__name__}: {exc}")
                    obj = self.rebuild(layout, m)
                if any(off < n < off + nb for off, nb, _u in tops):
                    self.probe("parse_cut_inside_register")
                self.probe("parse_short")
            elif name == "config_roundtrip":
                diff = bool(op.get("diff"))
                cfg = obj.get_config(diff=diff)
                twin = make_registers(layout)
                try:
                    twin.load_yml_config(copy.deepcopy(cfg))
                except Exception as exc:  # pylint: disable=broad-except
                    self.violation("config-roundtrip", f"load:{type(exc).__name__}", f"{label}: loading the object's own configuration failed: {type(exc).__name__}: {exc}")
                else:
                    want = m
                    if any(r.get("uncovered") for r in layout["regs"]):
                        # bits that belong to no bit-field are not part of a configuration: they come back as the reset value
                        want = copy.deepcopy(m)
                        for r in layout["regs"]:
                            if r.get("uncovered"):
                                cov = (1 << (r["width"] - r["uncovered"])) - 1
                                want.val[r["uid"]] = (m.val[r["uid"]] & cov) | (m.reset[r["uid"]] & ~cov)
                    for site, msg in compare(twin, want, f"{label}: twin after load_yml_config(get_config(diff={diff}))"):
                        self.violation("config-roundtrip", site, msg)
                self.probe("config_roundtrip")
            elif name == "query":
                snap = snapshot(obj)
                q = op["q"]
                try:
                    self.query(obj, q, layout)
                except R.SPSDKError:
                    pass
                except Exception as exc:  # pylint: disable=broad-except
                    self.violation("undocumented-exception", f"query:{q}:{type(exc).__name__}", f"{label} {q}: raised {type(exc).__name__}: {exc}")
                snap2 = snapshot(obj)
                if snap2 != snap:
                    what = "register list" if [s[:2] for s in snap] != [s[:2] for s in snap2] else "register contents"
                    self.violation("query-mutates", q, f"{label}: read-only query {q} changed the object's {what} ({len(snap)} -> {len(snap2)} top-level registers)")
                    obj = self.rebuild(layout, m)
                self.probe("query")
            else:
                raise HarnessError(f"unknown op {name}")
            for site, msg in compare(obj, m, f"after {label}"):
                self.violation("refinement", site, msg)
            self.log.add(k, name, len(self.records) - before)
            if len(self.trace) < 50:
                self.trace.append([k, label[:120], len(self.records) - before])
            if len(self.records) > before:
                # resynchronise so that one divergence is reported once, and later steps are still judged
                obj = self.rebuild(layout, m)
        return obj, changes

    def resync(self, obj, m: Model) -> None:
        """After a wrongly accepted write, adopt the object's state so that later steps are judged on their own."""
        for r in m.layout["regs"]:
            try:
                v = find_reg(obj, r["uid"]).get_value(raw=True)
            except Exception:  # pylint: disable=broad-except
                v = 0
            m.val[r["uid"]] = v & ((1 << r["width"]) - 1)
            if v != m.val[r["uid"]]:
                find_reg(obj, r["uid"])._value = m.val[r["uid"]]

    def rebuild(self, layout, m: Model):
        obj = make_registers(layout)
        for r in layout["regs"]:
            find_reg(obj, r["uid"]).set_value(m.val[r["uid"]], raw=True)
        return obj

    def query(self, obj, q: str, layout) -> None:
        if q == "get_registers":
            obj.get_registers()
        elif q == "get_registers_groups":
            obj.get_registers(include_group_regs=True)
        elif q == "get_registers_exclude":
            obj.get_registers(exclude=["REG1", "GRP"])
        elif q == "get_registers_exclude_groups":
            obj.get_registers(exclude=["REG0"], include_group_regs=True)
        elif q == "get_reg_names":
            obj.get_reg_names()
        elif q == "get_reg_names_groups":
            obj.get_reg_names(include_group_regs=True)
        elif q == "find_reg":
            obj.find_reg(layout["regs"][0]["name"], include_group_regs=True)
            obj.find_reg("NOPE", include_group_regs=True)
        elif q == "get_bitfields":
            for reg in obj.get_registers():
                reg.get_bitfields()
                reg.get_bitfield_names(exclude=["F1"])
        elif q == "image_info":
            obj.image_info()
            len(obj.image_info(size=0))
        elif q == "export":
            obj.export()
        elif q == "get_diff":
            obj.get_diff(make_registers(layout))
        elif q == "schema":
            obj.get_validation_schema()
        elif q == "str":
            str(obj)
            repr(obj._registers[0])
        elif q == "get_config":
            obj.get_config()
            obj.get_config(diff=True)
        elif q == "values":
            for reg in obj.get_registers():
                reg.get_hex_value()
                reg.get_bytes_value()
                reg.get_reset_value()
                for b in reg.get_bitfields():
                    b.get_enum_value()
                    b.get_hex_value()
                    b.get_enum_names()
        elif q == "len_iter_eq":
            len(obj)
            list(iter(obj))
            obj == make_registers(layout)  # pylint: disable=expression-not-assigned
        else:
            raise HarnessError(q)

    def result(self, changes: int) -> dict:
        plan = self.plan
        lay = plan["layout"]
        lsig = [lay["endianness"], bool(lay.get("fuse")), [[r["width"], [(b["width"], bool(b.get("hidden")), len(b.get("enums", [])), b.get("shift", 0)) for b in r.get("bitfields", [])]] for r in lay["regs"]], [[len(g["sub_regs"]), bool(g.get("reversed")), bool(g.get("reverse_subregs_order"))] for g in lay.get("groups", [])]]
        osig = [[o["op"], o.get("val", [None])[0] if o.get("val") else o.get("q") or o.get("by")] for o in plan["ops"]]
        seen, out = set(), []
        for r in self.records:
            kk = (r["oracle"], r["site"])
            if kk not in seen:
                seen.add(kk)
                out.append(r)
        return {
            "records": out,
            "digest": digest([self.log.digest(), [(r["oracle"], r["site"]) for r in out]]),
            "sig": [digest(lsig)[:16], "-", digest(osig)[:16]],
            "nontrivial": changes >= 2,
            "faults": {},
            "probes": self.probes,
            "obs": {"operations": len(plan["ops"]), "state_changes": changes},
            "sim_time_us": 0,
            "steps": len(plan["ops"]),
            "trace": self.trace,
        }


def execute(plan: dict) -> dict:
    worker_init()
    return Run(plan).execute()


# ----------------------------------------------------------------------------------------------
# generation

QUERIES = [
    "get_registers", "get_registers_groups", "get_registers_exclude", "get_registers_exclude_groups", "get_reg_names", "get_reg_names_groups",
    "find_reg", "get_bitfields", "image_info", "export", "get_diff", "schema", "str", "get_config", "values", "len_iter_eq",
]


def gen_bitfields(rng: random.Random, width: int, prefix: str, allow_reset: bool = True, allow_shift: bool = True) -> list:
    """Bit-fields partitioning a register. Reset values of shifted fields and of sub-registers of a group are not
    generated: what 'reset' means there is not stated by the property (SPSDK itself treats them inconsistently)."""
    out = []
    left = width
    i = 0
    while left > 0:
        w = min(left, rng.choice([1, 1, 2, 3, 4, 5, 7, 8, 12, 16, 24, 31, 32, 33, 64, left]))
        b = {"uid": f"{prefix}_b{i}", "name": f"F{i}_{prefix}", "width": w}
        if rng.random() < 0.25 and len(out) > 0:
            b["hidden"] = True
        else:
            if rng.random() < 0.35 and w <= 16:
                n = rng.randint(1, min(4, 1 << w))
                vals = rng.sample(range(1 << w), n) if (1 << w) <= 4096 else [rng.randrange(1 << w) for _ in range(n)]
                b["enums"] = [[f"E{j}_{prefix}_{i}", v] for j, v in enumerate(sorted(set(vals)))]
                if rng.random() < 0.25:
                    # names that look like decimal numbers (divider ratios, sizes: "128" = 0), as in the shipped fuse databases
                    nums = rng.sample([1, 2, 3, 4, 8, 16, 32, 64, 128, 256, 0, 5, 10, 100], len(b["enums"]))
                    b["enums"] = [[str(nm), e[1]] for nm, e in zip(nums, b["enums"])]
            if rng.random() < 0.08 and w >= 2 and not b.get("enums"):
                b["shift"] = rng.choice([1, 2, 4])
        if rng.random() < 0.3 and not b.get("shift") and allow_reset:
            b["reset"] = rng.randrange(1 << w)
        if not allow_shift:
            b.pop("shift", None)
        out.append(b)
        left -= w
        i += 1
    return out


def gen_layout(rng: random.Random) -> dict:
    regs = []
    groups = []
    offset = rng.choice([0, 0, 4, 0x10])
    nitems = rng.randint(1, 5)
    ri = 0
    gi = 0
    for _ in range(nitems):
        if rng.random() < 0.3:
            n = rng.randint(2, 8)
            w = rng.choice([8, 16, 32, 32])
            g = {"uid": f"g{gi}", "name": f"GRP{gi}", "sub_regs": [], "reversed": rng.random() < 0.4, "reverse_subregs_order": rng.random() < 0.5, "hexstring": rng.random() < 0.3}
            for _j in range(n):
                r = {"uid": f"r{ri}", "name": f"SUB{ri}", "offset": offset, "width": w}
                if rng.random() < 0.25:
                    r["bitfields"] = gen_bitfields(rng, w, f"r{ri}", allow_reset=False, allow_shift=False)
                regs.append(r)
                g["sub_regs"].append(r["uid"])
                offset += w // 8
                ri += 1
            total = n * w
            if n >= 3 and rng.random() < 0.4 and not any(r.get("bitfields") for r in regs[-n:]):
                choices = [k * w for k in range(1, n) if (k * w) % 8 == 0]
                g["alt_widths"] = sorted(rng.sample(choices, min(len(choices), rng.choice([1, 1, 2]))))
                g["reverse_subregs_order"] = False  # as in the shipped specifications (ROTKH / RKTH groups)
            groups.append(g)
            gi += 1
        else:
            w = rng.choice([8, 16, 32, 32, 32, 64, 128, 256, 512])
            r = {"uid": f"r{ri}", "name": f"REG{ri}", "offset": offset, "width": w}
            if rng.random() < 0.75:
                r["bitfields"] = gen_bitfields(rng, w, f"r{ri}")
                # real specifications give shifted (config-processed) fields a zero reset value; a non-zero one is
                # handled inconsistently by SPSDK (external vs stored domain) and is outside what the property states
                if not any(b.get("reset") or b.get("shift") for b in r["bitfields"]) and rng.random() < 0.4:
                    r["reset"] = rng.randrange(1 << w)
                if len(r["bitfields"]) >= 2 and rng.random() < 0.1 and not r["bitfields"][-1].get("reset"):
                    # a custom layout whose bit-fields do not cover the whole register: the top bits belong to no field
                    r["uncovered"] = r["bitfields"].pop()["width"]
            elif rng.random() < 0.5:
                r["reset"] = rng.randrange(1 << w)
            regs.append(r)
            offset += w // 8 + rng.choice([0, 0, 4])
            ri += 1
    if offset == 0:
        offset = 4
    # a register at offset 0 that is not first would be treated as an alias target only for offset != 0; keep offsets unique
    fuse = rng.random() < 0.25
    grouped = {u for g in groups for u in g["sub_regs"]}
    if not fuse:
        for r in regs:
            # a register with reversed byte order (built programmatically: specifications have the flag on groups only): its
            # bit-fields live in the external, byte-reversed view of the stored value
            if r["uid"] not in grouped and r["width"] >= 16 and not r.get("reset") and not r.get("uncovered") and not any(b.get("reset") for b in r.get("bitfields", [])) and rng.random() < 0.15:
                r["reverse"] = True
    return {"endianness": rng.choice(["big", "little"]), "regs": regs, "groups": groups, "fuse": fuse}


def gen_val(rng: random.Random) -> list:
    kind = rng.choice(["zero", "one", "max", "max", "pow", "pow", "pow1", "big", "neg", "rnd", "rnd", "rnd", "rnd", "bit"])
    return [kind, rng.randrange(1 << 62), rng.choice(["int", "int", "int", "hex", "dec", "bin", "hexu", "binu"])]


def gen_op(rng: random.Random) -> dict:
    name = rng.choice(["reg_set"] * 5 + ["group_set"] * 3 + ["alt_set"] * 2 + ["bf_set"] * 6 + ["bf_enum"] * 4 + ["reg_reset", "reset_all"] + ["export_parse"] * 2 + ["export_pattern", "deepcopy"] + ["parse_short"] * 2 + ["config_roundtrip"] * 2 + ["query"] * 5)
    o: dict = {"op": name}
    if name == "reg_set":
        o.update(reg=rng.randrange(64), val=gen_val(rng), raw=rng.random() < 0.5)
    elif name == "group_set":
        o.update(group=rng.randrange(8), val=gen_val(rng), raw=rng.random() < 0.5)
    elif name == "alt_set":
        o.update(group=rng.randrange(8), which=rng.randrange(8), val=gen_val(rng))
    elif name == "bf_set":
        o.update(reg=rng.randrange(64), bf=rng.randrange(64), val=gen_val(rng), raw=rng.random() < 0.3)
    elif name == "bf_enum":
        o.update(reg=rng.randrange(64), bf=rng.randrange(64), by=rng.choice(["name", "name", "int", "str", "rawstr"]), e=rng.randrange(8), val=gen_val(rng))
    elif name == "reg_reset":
        o.update(reg=rng.randrange(64))
    elif name == "parse_short":
        o.update(r=rng.randrange(1 << 30), inside=rng.random() < 0.6)
    elif name == "deepcopy":
        o.update(flip=rng.random() < 0.6, reset_copy=rng.random() < 0.3)
    elif name == "config_roundtrip":
        o.update(diff=rng.random() < 0.4)
    elif name == "query":
        o.update(q=rng.choice(QUERIES))
    return o


def gen_plan(family: str, i: int, rng: random.Random, tier: str) -> dict:
    return {"layout": gen_layout(rng), "ops": [gen_op(rng) for _ in range(rng.randint(1, 40))]}


_WARM = False


def warm_up() -> None:
    """Runs are executed in forked copies of the worker: whatever is initialised lazily on first use is done once, here."""
    global _WARM
    if _WARM:
        return
    _WARM = True
    for i in range(40):
        execute(gen_plan("hist", i, random.Random(5000 + i), "quick"))


def families(tier: str):
    return [("hist", 60000 if tier == "quick" else 3_000_000)]


def reductions(plan: dict):
    yield from ddmin_lists(plan, [["ops"]])
    lay = plan["layout"]
    # drop whole groups (with their sub registers) or single plain registers
    for gi, g in enumerate(lay.get("groups", [])):
        c = copy.deepcopy(plan)
        subs = set(g["sub_regs"])
        c["layout"]["regs"] = [r for r in lay["regs"] if r["uid"] not in subs]
        c["layout"]["groups"] = [x for j, x in enumerate(lay["groups"]) if j != gi]
        if c["layout"]["regs"]:
            yield c
        for key in ("reversed", "reverse_subregs_order", "hexstring"):
            if g.get(key):
                c = copy.deepcopy(plan)
                c["layout"]["groups"][gi][key] = False
                yield c
        if len(g["sub_regs"]) > 2:
            c = copy.deepcopy(plan)
            drop = g["sub_regs"][-1]
            c["layout"]["groups"][gi]["sub_regs"] = g["sub_regs"][:-1]
            c["layout"]["regs"] = [r for r in lay["regs"] if r["uid"] != drop]
            yield c
    grouped = {u for g in lay.get("groups", []) for u in g["sub_regs"]}
    for ri, r in enumerate(lay["regs"]):
        if r["uid"] in grouped:
            continue
        if len(lay["regs"]) > 1:
            c = copy.deepcopy(plan)
            del c["layout"]["regs"][ri]
            yield c
    for ri, r in enumerate(lay["regs"]):
        if r.get("bitfields"):
            for bi, b in enumerate(r["bitfields"]):
                for key in ("enums", "shift", "reset", "hidden"):
                    if b.get(key):
                        c = copy.deepcopy(plan)
                        c["layout"]["regs"][ri]["bitfields"][bi].pop(key)
                        yield c
            if len(r["bitfields"]) > 1:
                # merge the last two bit-fields
                c = copy.deepcopy(plan)
                bfs = c["layout"]["regs"][ri]["bitfields"]
                last = bfs.pop()
                bfs[-1]["width"] += last["width"]
                for key in ("enums", "shift", "reset"):
                    bfs[-1].pop(key, None)
                yield c
        if r.get("reset"):
            c = copy.deepcopy(plan)
            c["layout"]["regs"][ri].pop("reset")
            yield c
    if lay.get("fuse"):
        c = copy.deepcopy(plan)
        c["layout"]["fuse"] = False
        yield c
    if lay["endianness"] != "big":
        c = copy.deepcopy(plan)
        c["layout"]["endianness"] = "big"
        yield c
