"""Independent model of the SB3.1 ROM loader (written from the format description in DESIGN.md appendix A).

Uses `cryptography` directly; nothing from spsdk is imported here.
"""
from __future__ import annotations

import hashlib
import struct

from cryptography.exceptions import InvalidSignature
from cryptography.hazmat.primitives import hashes
from cryptography.hazmat.primitives.asymmetric import ec, utils
from cryptography.hazmat.primitives.ciphers import Cipher, algorithms, modes
from cryptography.hazmat.primitives.cmac import CMAC


class RomReject(Exception):
    """The loader refuses the container."""

    def __init__(self, stage: str, msg: str) -> None:
        super().__init__(f"{stage}: {msg}")
        self.stage = stage


CMD_TAG = 0x55AAAA55
(ERASE, LOAD, EXECUTE, CALL, PROGRAM_FUSES, PROGRAM_IFR, LOAD_CMAC, COPY, LOAD_HASH_LOCKING, LOAD_KEY_BLOB, CONFIGURE_MEMORY, FILL_MEMORY, FW_VERSION_CHECK, RESET) = range(1, 15)


def kdf(key: bytes, label: int, rights: int, mode: int, bits: int) -> bytes:
    """CMAC based KDF in counter mode (NIST SP 800-108 style) as documented for SB3.1."""
    out = b""
    for it in range(1, 2 if bits == 128 else 3):
        d = label.to_bytes(12, "little") + bytes(8) + bytes([(rights << 6) & 0xFF, mode, 0, 0x20 if bits == 128 else 0x21]) + bits.to_bytes(4, "big") + it.to_bytes(4, "big")
        c = CMAC(algorithms.AES(key))
        c.update(d)
        out += c.finalize()
    return out


def _pub(xy: bytes):
    n = len(xy) // 2
    curve = {32: ec.SECP256R1(), 48: ec.SECP384R1()}[n]
    return ec.EllipticCurvePublicNumbers(int.from_bytes(xy[:n], "big"), int.from_bytes(xy[n:], "big"), curve).public_key()


def _verify(key, sig: bytes, data: bytes, stage: str) -> None:
    n = key.curve.key_size // 8
    if len(sig) != 2 * n:
        raise RomReject(stage, f"signature length {len(sig)} does not fit the key ({2 * n})")
    h = hashes.SHA256() if n == 32 else hashes.SHA384()
    try:
        key.verify(utils.encode_dss_signature(int.from_bytes(sig[:n], "big"), int.from_bytes(sig[n:], "big")), data, ec.ECDSA(h))
    except InvalidSignature as exc:
        raise RomReject(stage, "signature does not verify") from exc
    except ValueError as exc:
        raise RomReject(stage, f"bad key/signature: {exc}") from exc


class Rom31:
    """Device-side state: provisioned RoT key hash, part common key, KDK access rights."""

    def __init__(self, rotkh: bytes, pck: bytes | None, rights: int, expects_encrypted: bool) -> None:
        self.rotkh = rotkh
        self.pck = pck
        self.rights = rights
        self.expects_encrypted = expects_encrypted

    # -- block 0
    def block0(self, f: bytes) -> dict:
        if len(f) < 60:
            raise RomReject("header", "file shorter than the header")
        magic, mnr, maj, flags, nblk, bsz, ts, fw, tot, itype, cbo, desc = struct.unpack_from("<4s2H3LQ4L16s", f)
        if magic != b"sbv3":
            raise RomReject("header", "bad magic")
        if (maj, mnr) != (3, 1):
            raise RomReject("header", f"version {maj}.{mnr}")
        if bsz not in (292, 308):
            raise RomReject("header", f"block size {bsz}")
        hl = bsz - 260
        if cbo != 60 + hl:
            raise RomReject("header", f"certificate block offset {cbo}")
        if itype not in (6, 7):
            raise RomReject("header", f"image type {itype}")
        if tot > len(f) or tot < cbo + 12:
            raise RomReject("header", f"imageTotalLength {tot} outside the file ({len(f)})")
        h1 = f[60 : 60 + hl]
        cb = f[cbo:tot]
        if len(cb) < 16:
            raise RomReject("cert-block", "too short")
        m, cmn, cmj, cbsize = struct.unpack_from("<4s2HL", cb)
        if m != b"chdr" or (cmj, cmn) != (2, 1):
            raise RomReject("cert-block", "bad header")
        o = 12
        (rflags,) = struct.unpack_from("<L", cb, o)
        nroots = (rflags >> 4) & 0xF
        used = (rflags >> 8) & 0xF
        ctype = rflags & 0xF
        if ctype not in (1, 2):
            raise RomReject("cert-block", f"curve type {ctype}")
        rl = {1: 32, 2: 48}[ctype]
        no_isk = bool(rflags >> 31)
        if not 1 <= nroots <= 4 or used >= nroots:
            raise RomReject("cert-block", f"root count {nroots} / used {used}")
        rk_start = o
        o += 4
        table = b""
        if nroots > 1:
            table = cb[o : o + rl * nroots]
            o += rl * nroots
        rootxy = cb[o : o + 2 * rl]
        o += 2 * rl
        if len(rootxy) != 2 * rl:
            raise RomReject("cert-block", "truncated root key")
        rk_rec = cb[rk_start:o]
        rh = hashlib.sha256 if rl == 32 else hashlib.sha384
        if nroots > 1:
            if rh(rootxy).digest() != table[used * rl : (used + 1) * rl]:
                raise RomReject("cert-block", "used root key is not the one in the table")
            rotkh = rh(table).digest()
        else:
            rotkh = rh(rootxy).digest()
        if rotkh != self.rotkh:
            raise RomReject("cert-block", "root of trust key hash differs from the provisioned one")
        try:
            signer = _pub(rootxy)
        except ValueError as exc:
            raise RomReject("cert-block", f"root key not on curve: {exc}") from exc
        isk = None
        if not no_isk:
            if len(cb) < o + 12:
                raise RomReject("isk", "truncated")
            so, cons, iflags = struct.unpack_from("<3L", cb, o)
            it = iflags & 0xF
            if it not in (1, 2):
                raise RomReject("isk", f"curve type {it}")
            il = {1: 32, 2: 48}[it]
            has_ud = bool(iflags >> 31)
            if so < 12 + 2 * il or o + so + 2 * rl > len(cb):
                raise RomReject("isk", "signature offset outside the certificate block")
            iskxy = cb[o + 12 : o + 12 + 2 * il]
            ud = cb[o + 12 + 2 * il : o + so]
            if bool(ud) != has_ud:
                raise RomReject("isk", "user data flag does not match")
            isig = cb[o + so : o + so + 2 * rl]
            _verify(signer, isig, rk_rec + cb[o : o + so], "isk")
            try:
                signer = _pub(iskxy)
            except ValueError as exc:
                raise RomReject("isk", f"ISK key not on curve: {exc}") from exc
            isk = {"constraints": cons, "user_data": ud, "curve": il}
            o += so + 2 * rl
        if o != cbsize:
            raise RomReject("cert-block", f"size field {cbsize} but content ends at {o}")
        sl = signer.curve.key_size // 8 * 2
        if sl != 2 * hl:
            raise RomReject("signature", "hash size of the container does not match the signing key")
        if tot != cbo + cbsize + sl:
            raise RomReject("header", f"imageTotalLength {tot} != {cbo + cbsize + sl}")
        _verify(signer, f[tot - sl : tot], f[: tot - sl], "signature")
        return {
            "flags": flags, "block_count": nblk, "block_size": bsz, "timestamp": ts, "firmware_version": fw, "total_length": tot, "image_type": itype,
            "cert_block_offset": cbo, "description": desc, "hash_len": hl, "h1": h1, "roots": nroots, "used_root": used, "isk": isk,
        }

    # -- data blocks
    def load(self, f: bytes) -> dict:
        hdr = self.block0(f)
        hl, nblk, bsz, tot = hdr["hash_len"], hdr["block_count"], hdr["block_size"], hdr["total_length"]
        if len(f) != tot + nblk * bsz:
            raise RomReject("length", f"file has {len(f)} bytes, header implies {tot + nblk * bsz}")
        if nblk < 1:
            raise RomReject("blocks", "no data block")
        hfn = hashlib.sha256 if hl == 32 else hashlib.sha384
        bits = 128 if hl == 32 else 256
        expect = hdr["h1"]
        plain = b""
        kdk = None
        if self.expects_encrypted:
            if self.pck is None:
                raise RomReject("keys", "no PCK provisioned")
            kdk = kdf(self.pck, hdr["timestamp"], self.rights, 0x01, bits)
        for i in range(1, nblk + 1):
            b = f[tot + (i - 1) * bsz : tot + i * bsz]
            if hfn(b).digest() != expect:
                raise RomReject("chain", f"hash of block {i} does not match the one carried by its predecessor")
            (num,) = struct.unpack_from("<L", b)
            if num != i:
                raise RomReject("chain", f"block number {num} at position {i}")
            expect = b[4 : 4 + hl]
            payload = b[4 + hl :]
            if kdk is not None:
                k = kdf(kdk, i, self.rights, 0x10, bits)
                payload = Cipher(algorithms.AES(k), modes.CBC(bytes(16))).decryptor().update(payload)
            plain += payload
        hdr["last_next_hash_zero"] = expect == bytes(hl)
        hdr["commands"] = self.parse_stream(plain)
        return hdr

    @staticmethod
    def parse_stream(plain: bytes) -> list:
        if len(plain) < 16:
            raise RomReject("section", "no section header")
        uid, typ, ln, pad = struct.unpack_from("<4L", plain)
        if (uid, typ) != (1, 1) or pad != 0:
            raise RomReject("section", f"section header uid={uid} type={typ} (wrong key or not encrypted as expected?)")
        if 16 + ln > len(plain):
            raise RomReject("section", f"section length {ln} exceeds the data blocks")
        if any(plain[16 + ln :]):
            raise RomReject("section", "non-zero bytes after the command section")
        if len(plain) - (16 + ln) >= 256:
            raise RomReject("section", "more data blocks than the command section needs")
        cmds = []
        o = 16
        end = 16 + ln

        def need(n):
            if o + n > end:
                raise RomReject("command", f"command at {o} runs past the section end")

        while o < end:
            need(16)
            tag, a, l, c = struct.unpack_from("<4L", plain, o)
            if tag != CMD_TAG:
                raise RomReject("command", f"bad command tag {tag:#x} at {o}")
            o += 16
            if c == ERASE:
                need(16)
                mem, p0, p1, p2 = struct.unpack_from("<4L", plain, o)
                o += 16
                if p0 or p1 or p2:
                    raise RomReject("command", "erase padding")
                cmds.append(("erase", a, l, mem))
            elif c in (LOAD, LOAD_CMAC, LOAD_HASH_LOCKING):
                need(16)
                mem, p0, p1, p2 = struct.unpack_from("<4L", plain, o)
                o += 16
                if p0 or p1 or p2:
                    raise RomReject("command", "load padding")
                padded = (l + 15) // 16 * 16
                need(padded)
                data = plain[o : o + l]
                if any(plain[o + l : o + padded]):
                    raise RomReject("command", "load data padding not zero")
                o += padded
                if c == LOAD_HASH_LOCKING:
                    need(64)
                    if any(plain[o : o + 64]):
                        raise RomReject("command", "hash locking area not zero")
                    o += 64
                cmds.append(({LOAD: "load", LOAD_CMAC: "load_cmac", LOAD_HASH_LOCKING: "load_hash_locking"}[c], a, data, mem))
            elif c in (EXECUTE, CALL):
                cmds.append(("execute" if c == EXECUTE else "call", a))
            elif c == PROGRAM_FUSES:
                nbytes = l * 4
                padded = (nbytes + 15) // 16 * 16
                need(padded)
                cmds.append(("program_fuses", a, plain[o : o + nbytes]))
                if any(plain[o + nbytes : o + padded]):
                    raise RomReject("command", "fuse data padding not zero")
                o += padded
            elif c == PROGRAM_IFR:
                padded = (l + 15) // 16 * 16
                need(padded)
                cmds.append(("program_ifr", a, plain[o : o + l]))
                if any(plain[o + l : o + padded]):
                    raise RomReject("command", "ifr data padding not zero")
                o += padded
            elif c == COPY:
                need(16)
                dst, mfrom, mto, p = struct.unpack_from("<4L", plain, o)
                o += 16
                if p:
                    raise RomReject("command", "copy padding")
                cmds.append(("copy", a, l, dst, mfrom, mto))
            elif c == LOAD_KEY_BLOB:
                # header layout differs: tag, offset(16), key wrap id(16), length, cmd
                offset, wrap = a & 0xFFFF, a >> 16
                padded = (16 + l + 15) // 16 * 16 - 16
                need(padded)
                cmds.append(("load_key_blob", offset, wrap, plain[o : o + l]))
                if any(plain[o + l : o + padded]):
                    raise RomReject("command", "key blob padding not zero")
                o += padded
            elif c == CONFIGURE_MEMORY:
                cmds.append(("configure_memory", l, a))  # (address, memory id): the header carries memory id first
            elif c == FILL_MEMORY:
                need(16)
                pat, p0, p1, p2 = struct.unpack_from("<4L", plain, o)
                o += 16
                if p0 or p1 or p2:
                    raise RomReject("command", "fill padding")
                cmds.append(("fill_memory", a, l, pat))
            elif c == FW_VERSION_CHECK:
                cmds.append(("fw_version_check", a, l))
            elif c == RESET:
                cmds.append(("reset",))
            else:
                raise RomReject("command", f"unknown command {c}")
        if o != end:
            raise RomReject("command", "commands do not end at the section end")
        return cmds


def rotkh_of(root_pubs_xy: list[bytes]) -> bytes:
    """Root of trust key hash the device is provisioned with."""
    rl = len(root_pubs_xy[0]) // 2
    rh = hashlib.sha256 if rl == 32 else hashlib.sha384
    if len(root_pubs_xy) == 1:
        return rh(root_pubs_xy[0]).digest()
    return rh(b"".join(rh(xy).digest() for xy in root_pubs_xy)).digest()
