"""C05 — SB3.1: provisioning sessions and export histories.

Real builder (SecureBinary31 + command classes + CertBlockV21 + signature provider) -> storage (optional
bit flip) -> real McuBoot.receive_sb_file over the C10 simulated link -> device model whose
receive-sb-file handler is an independent SB3.1 ROM-loader model (c05/rom31.py).
"""
from __future__ import annotations

import copy
import hashlib
import json
import os
import random
import struct

from simkit.core import VERIF_DIR, EventLog, HarnessError, ddmin_lists, digest
from simkit.simtime import CLOCK, EPOCH

PROP = "C05"
ISOLATE_RUNS = True  # every run in a forked copy of the worker (simkit.core.run_one)
LEVEL = "exploration"
BUDGET_S = {"quick": 420, "thorough": 1500}
CHUNK = 10
RULE = (
    "each run = one history on one SecureBinary31 object: key set (P-256/P-384, 1..4 roots, with/without ISK incl. mixed "
    "curves), PCK 128/256 bit, access rights 0..3, encrypted/plain, header fields, then operations add_command / export / "
    "export again / flip a stored bit / deliver an export over the simulated UART or HID link (with link faults) / advance "
    "the clock. Every export is given to the independent ROM-loader model. control_runs = single export without faults "
    "(generated inputs against a reference model), history_runs = >=2 exports, faulted_runs = >=1 storage or link fault. "
    "Non-trivial = >=2 commands or >=2 exports or a fault; distinct = distinct (key/link signature, fault signature, "
    "command-shape signature) triples counted with a set."
)
COMPONENTS = {
    "real": ["spsdk.sbfile.sb31.images.SecureBinary31 / SecureBinary31Header / SecureBinary31Commands", "spsdk.sbfile.sb31.commands (14 command classes)", "spsdk.sbfile.sb31.functions (KDF)", "spsdk.utils.crypto.cert_blocks.CertBlockV21", "spsdk.crypto.signature_provider.PlainFileSP", "McuBoot.receive_sb_file + protocol + device classes (as C10)"],
    "stub": ["ROM loader (independent model c05/rom31.py, validated on reference containers in golden/sb31)", "bootloader device and link (C10 models)", "clock"],
}
MEASURES = {"distinct_schedules": "distinct (key set, PCK size, rights, encryption, link configuration) signatures", "distinct_states": "not measured (0)", "sim_time_s": "simulated time incl. link deliveries and the clock offsets used for default timestamps"}
ASSUMPTIONS = [
    "the ROM-loader model is written from the documented SB3.1 construction and must accept the reference containers under golden/sb31 before any run counts",
    "the device is provisioned with the RoT key hash of the root set, the PCK, the KDK access rights and whether containers are encrypted",
    "the last data block's next-hash field is not required to be zero (not documented)",
    "ECDSA signature bytes are nondeterministic (OpenSSL RNG) and are masked out of the event digest",
]

GOLDEN = os.path.join(VERIF_DIR, "golden")
S = None
_VALIDATED = False


def worker_init() -> None:
    global S
    if S is not None:
        return
    from c10 import sim as c10sim

    c10sim.worker_init()

    class NS:
        pass

    S = NS()
    from spsdk.crypto.signature_provider import PlainFileSP
    from spsdk.exceptions import SPSDKError
    from spsdk.sbfile.sb31 import commands as cmds
    from spsdk.sbfile.sb31.images import SecureBinary31
    from spsdk.utils.crypto.cert_blocks import CertBlockV21

    S.PlainFileSP = PlainFileSP
    S.SPSDKError = SPSDKError
    S.cmds = cmds
    S.SecureBinary31 = SecureBinary31
    S.CertBlockV21 = CertBlockV21
    S.c10 = c10sim
    validate_model()
    warm_up()


def warm_up() -> None:
    """Runs are executed in forked copies of this process: do everything that is lazily initialised on first use
    (device database, signature back end, imports inside functions) once here, not in every copy."""
    import shutil

    for i, fam in ((0, "control"), (1, "history"), (2, "faulted"), (3, "control"), (4, "history")):
        plan = gen_plan(fam, i, random.Random(1000 + i), "quick")
        if i == 3:
            plan["via_config"] = {"num": "hex", "pck_form": "hex", "pck_always": True, "auto_root_id": True, "new_names": True, "certblock": "file"}
            plan["keys"]["isk"] = plan["keys"]["curve"]
        run = Run(plan)
        try:
            run.execute()
        finally:
            if run.td:
                shutil.rmtree(run.td, ignore_errors=True)
    CLOCK.reset()


def validate_model() -> None:
    """The ROM model must accept the reference containers; otherwise nothing it says counts."""
    global _VALIDATED
    if _VALIDATED:
        return
    from c05.rom31 import Rom31, RomReject

    d = os.path.join(GOLDEN, "sb31")
    pck = bytes.fromhex(open(os.path.join(d, "pck.txt")).read().strip())
    n = 0
    for fn in sorted(os.listdir(d)):
        if not fn.endswith(".sb3"):
            continue
        f = open(os.path.join(d, fn), "rb").read()
        bsz = struct.unpack_from("<L", f, 16)[0]
        hl = bsz - 260
        cbo = 60 + hl
        rflags = struct.unpack_from("<L", f, cbo + 12)[0]
        nr = (rflags >> 4) & 0xF
        rl = {1: 32, 2: 48}[rflags & 0xF]
        rh = hashlib.sha256 if rl == 32 else hashlib.sha384
        o = cbo + 16
        rot = rh(f[o : o + rl * nr]).digest() if nr > 1 else rh(f[o : o + 2 * rl]).digest()
        enc = "unencrypted" not in fn
        try:
            res = Rom31(rot, pck, 3, enc).load(f)
        except RomReject as exc:
            raise HarnessError(f"ROM model rejects reference container {fn}: {exc}") from exc
        if not res["commands"]:
            raise HarnessError(f"ROM model decoded no command from {fn}")
        # and it must reject a corrupted copy
        for pos in (10, cbo + 20, len(f) - 5, res["total_length"] + 7):
            g = bytearray(f)
            g[pos] ^= 0x10
            try:
                Rom31(rot, pck, 3, enc).load(bytes(g))
            except RomReject:
                continue
            raise HarnessError(f"ROM model accepts {fn} with byte {pos} corrupted")
        n += 1
    if n < 5:
        raise HarnessError("reference containers missing")
    _VALIDATED = True


# ----------------------------------------------------------------------------------------------
# keys


def key_path(curve: str, role: str, pub: bool = False) -> str:
    return os.path.join(GOLDEN, "keys", "ec", f"{curve}_{role}.{'pub' if pub else 'pem'}")


def flaky_sp(inner, failures: int, counter: dict):
    """A signature provider (public plug-in interface) whose signing service cannot be reached for the first requests."""
    from spsdk.crypto.signature_provider import SignatureProvider

    class VerifFlakySP(SignatureProvider):
        identifier = "verif_flaky_link"

        def __init__(self) -> None:
            self.remaining = failures

        def sign(self, data: bytes) -> bytes:
            if self.remaining:
                self.remaining -= 1
                counter["n"] = counter.get("n", 0) + 1
                raise S.SPSDKError("signing service is not reachable")
            return inner.sign(data)

        @property
        def signature_length(self) -> int:
            return inner.signature_length

        def verify_public_key(self, public_key) -> bool:
            return inner.verify_public_key(public_key)

    return VerifFlakySP()


def root_role(ks: dict, i: int) -> str:
    """Root i of the key set: one of the four ordinary roots, or a root whose X (rootz) or Y (rooty) coordinate starts
    with a zero byte (about one key in 128 does)."""
    sp = ks.get("special")
    return sp[1] if sp and sp[0] == i else f"root{i}"


def pub_xy(path: str) -> bytes:
    from cryptography.hazmat.primitives import serialization

    k = serialization.load_pem_public_key(open(path, "rb").read())
    n = k.curve.key_size // 8
    nums = k.public_numbers()
    return nums.x.to_bytes(n, "big") + nums.y.to_bytes(n, "big")


# ----------------------------------------------------------------------------------------------
# commands: plan spec -> (SPSDK command object, tuple expected from the ROM model)


def gen_bytes(seed: int, n: int) -> bytes:
    if seed % 9 == 0 and n >= 300:
        # an image with long runs of filler: whole 256-byte chunks of the command stream are equal
        return bytes([0xFF if seed % 2 else (seed >> 8) & 0xFF]) * n
    out = bytearray()
    i = 0
    while len(out) < n:
        out += hashlib.sha256(b"c05:%d:%d" % (seed, i)).digest()
        i += 1
    return bytes(out[:n])


def make_cmd(c: dict):
    K = S.cmds
    t = c["t"]
    if t == "erase":
        return K.CmdErase(c["a"], c["l"], c["m"]), ("erase", c["a"], c["l"], c["m"])
    if t in ("load", "load_cmac", "load_hash_locking"):
        data = gen_bytes(c["s"], c["l"])
        cls = {"load": K.CmdLoad, "load_cmac": K.CmdLoadCmac, "load_hash_locking": K.CmdLoadHashLocking}[t]
        return cls(c["a"], data, c["m"]), (t, c["a"], data, c["m"])
    if t == "execute":
        return K.CmdExecute(c["a"]), ("execute", c["a"])
    if t == "call":
        return K.CmdCall(c["a"]), ("call", c["a"])
    if t == "program_fuses":
        data = gen_bytes(c["s"], c["l"])
        return K.CmdProgFuses(c["a"], data), ("program_fuses", c["a"], data)
    if t == "program_ifr":
        data = gen_bytes(c["s"], c["l"])
        return K.CmdProgIfr(c["a"], data), ("program_ifr", c["a"], data)
    if t == "copy":
        return K.CmdCopy(c["a"], c["l"], c["d"], c["mf"], c["mt"]), ("copy", c["a"], c["l"], c["d"], c["mf"], c["mt"])
    if t == "load_key_blob":
        data = gen_bytes(c["s"], c["l"])
        return K.CmdLoadKeyBlob(c["o"], data, c["w"]), ("load_key_blob", c["o"], c["w"], data)
    if t == "configure_memory":
        return K.CmdConfigureMemory(c["a"], c["m"]), ("configure_memory", c["a"], c["m"])
    if t == "fill_memory":
        return K.CmdFillMemory(c["a"], c["l"], c["p"]), ("fill_memory", c["a"], c["l"], c["p"])
    if t == "fw_version_check":
        cid = K.CmdFwVersionCheck.CounterID.from_tag(c["c"])
        return K.CmdFwVersionCheck(c["v"], cid), ("fw_version_check", c["v"], c["c"])
    if t == "reset":
        return K.CmdReset(), ("reset",)
    raise HarnessError(f"command spec {c}")


# ----------------------------------------------------------------------------------------------
# the configuration route (what `nxpimage sb31 export` does): plan spec -> (config entry, expected tuple)
# The expectation is written from the documented configuration format (jsonschemas/sch_sb31.yaml), not from the loader.


def _num(v: int, style: str):
    if style == "int":
        return v
    if style == "hex":
        return hex(v)
    if style == "HEX":
        return "0x%08X" % v
    if style == "bin":
        return bin(v)
    return str(v)


def make_cfg_cmd(c: dict, td: str, idx: int):
    t = c["t"]
    st = c.get("num", "int")
    n = lambda v: _num(v, st)  # noqa: E731

    def data_source(data: bytes, allow_values: bool = True) -> dict:
        form = c.get("form", "file")
        if form == "values" and allow_values and len(data) % 4 == 0 and 0 < len(data) <= 96:
            words = struct.unpack(f"<{len(data) // 4}L", data)
            if len(words) == 1 and words[0] and st == "int":
                return {"values": words[0]}
            return {"values": ", ".join(str(_num(w, ("hex", "dec", "HEX")[(idx + k) % 3])) for k, w in enumerate(words))}
        if form == "value" and allow_values and len(data) in (4, 8) and data[-1] != 0:
            return {"value": "0x" + data[::-1].hex()}
        name = f"d{idx}.bin"
        with open(os.path.join(td, name), "wb") as f:
            f.write(data)
        return {"file": name}

    def mem(d: dict, m: int) -> dict:
        if m or c.get("explicit_mem"):
            d["memoryId"] = n(m)
        return d

    if t == "erase":
        return {"erase": mem({"address": n(c["a"]), "size": n(c["l"])}, c["m"])}, ("erase", c["a"], c["l"], c["m"])
    if t == "load":
        data = gen_bytes(c["s"], c["l"])
        d = mem({"address": n(c["a"])}, c["m"])
        d.update(data_source(data))
        if c.get("auth_none"):
            d["authentication"] = "none"
        return {"load": d}, ("load", c["a"], data, c["m"])
    if t in ("load_cmac", "load_hash_locking"):
        data = gen_bytes(c["s"], c["l"])
        d = mem({"address": n(c["a"])}, c["m"])
        d.update(data_source(data, allow_values=False))
        if c.get("via_load"):  # the older spelling: a load command with an authentication option
            d["authentication"] = "cmac" if t == "load_cmac" else "hashlocking"
            return {"load": d}, (t, c["a"], data, c["m"])
        return {"loadCMAC" if t == "load_cmac" else "loadHashLocking": d}, (t, c["a"], data, c["m"])
    if t in ("execute", "call"):
        return {t: {"address": n(c["a"])}}, (t, c["a"])
    if t == "program_fuses":
        data = gen_bytes(c["s"], c["l"])
        words = struct.unpack(f"<{len(data) // 4}L", data)
        vals = ", ".join(str(_num(w, ("hex", "dec")[k % 2])) for k, w in enumerate(words))
        return {"programFuses": {"address": n(c["a"]), "values": vals}}, ("program_fuses", c["a"], data)
    if t == "program_ifr":
        data = gen_bytes(c["s"], c["l"])
        d = {"address": n(c["a"])}
        d.update(data_source(data))
        return {"programIFR": d}, ("program_ifr", c["a"], data)
    if t == "copy":
        return {"copy": {"addressFrom": n(c["a"]), "size": n(c["l"]), "addressTo": n(c["d"]), "memoryIdFrom": n(c["mf"]), "memoryIdTo": n(c["mt"])}}, ("copy", c["a"], c["l"], c["d"], c["mf"], c["mt"])
    if t == "load_key_blob":
        data = gen_bytes(c["s"], c["l"])
        w = 16 + (c["w"] & 1)  # lpc55s3x: NXP_CUST_KEK_INT_SK = 16, NXP_CUST_KEK_EXT_SK = 17
        d = {"offset": n(c["o"]), "wrappingKeyId": "NXP_CUST_KEK_INT_SK" if w == 16 else "NXP_CUST_KEK_EXT_SK"}
        if c.get("form") == "value":
            name = f"d{idx}.txt"
            with open(os.path.join(td, name), "w") as f:
                f.write(data.hex())
            d.update(file=name, plainInput="hex")
        else:
            d.update(data_source(data, allow_values=False))
        return {"loadKeyBlob": d}, ("load_key_blob", c["o"], w, data)
    if t == "configure_memory":
        return {"configureMemory": {"configAddress": n(c["a"]), "memoryId": n(c["m"])}}, ("configure_memory", c["a"], c["m"])
    if t == "fill_memory":
        return {"fillMemory": {"address": n(c["a"]), "size": n(c["l"]), "pattern": n(c["p"])}}, ("fill_memory", c["a"], c["l"], c["p"])
    if t == "fw_version_check":
        label = {1: "nonsecure", 2: "secure", 3: "radio", 4: "snt", 5: "bootloader"}[c["c"]]
        return {"checkFwVersion": {"value": n(c["v"]), "counterId": label}}, ("fw_version_check", c["v"], c["c"])
    if t == "reset":
        return {"reset": {}}, ("reset",)
    raise HarnessError(f"command spec {c}")


def scratch_dir(run) -> str:
    """A private folder for the files of one run's configuration; removed when the run ends."""
    import tempfile

    if run.td is None:
        run.td = tempfile.mkdtemp(prefix="verif-c05-")
    return run.td


# ----------------------------------------------------------------------------------------------


class Run:
    def __init__(self, plan: dict) -> None:
        self.plan = plan
        self.log = EventLog(keep=300)
        self.records: list = []
        self.faults: dict = {}
        self.probes: dict = {}
        self.obs: dict = {}
        self.trace: list = []
        self.td = None

    def violation(self, oracle, site, msg, detail=None):
        self.records.append({"oracle": oracle, "site": site, "msg": msg, "detail": detail})
        self.log.add("violation", oracle, site)

    def fault(self, k, n=1):
        self.faults[k] = self.faults.get(k, 0) + n

    def probe(self, k, n=1):
        self.probes[k] = self.probes.get(k, 0) + n

    def build_from_config(self, pre_cmds: list):
        """The container as `nxpimage sb31 export` builds it: configuration dictionary -> SecureBinary31.load_from_config."""
        p = self.plan
        vc = p["via_config"]
        ks = p["keys"]
        curve = ks["curve"]
        td = scratch_dir(self)
        self.roots_xy = [pub_xy(key_path(curve, root_role(ks, i), pub=True)) for i in range(ks["nroots"])]
        self.pck = gen_bytes(p.get("pck_seed", 1), p["pck_bits"] // 8)
        self.expected_ts = p["timestamp"] if p.get("timestamp") else int(EPOCH + (CLOCK.now_us + CLOCK.wall_offset_us) / 1e6) - 946684800
        self.sign_curve = ks["isk"] or curve
        st = vc.get("num", "int")
        cfg: dict = {"family": "lpc55s3x", "firmwareVersion": _num(p["fw"], st), "kdkAccessRights": _num(p["rights"], st), "containerConfigurationWord": _num(p.get("flags", 0), st), "isNxpContainer": bool(p.get("nxp")), "isEncrypted": p["encrypted"]}
        if p.get("desc") is not None:
            cfg["description"] = p["desc"]
        if p.get("timestamp"):
            cfg["timestamp"] = _num(p["timestamp"], st)
        if p["encrypted"] or vc.get("pck_always"):
            form = vc.get("pck_form", "hex")
            if form == "hex":
                cfg["containerKeyBlobEncryptionKey"] = self.pck.hex()
            elif form == "txt":
                with open(os.path.join(td, "pck.txt"), "w") as f:
                    f.write(self.pck.hex() + "\n")
                cfg["containerKeyBlobEncryptionKey"] = "pck.txt"
            else:
                with open(os.path.join(td, "pck.bin"), "wb") as f:
                    f.write(self.pck)
                cfg["containerKeyBlobEncryptionKey"] = "pck.bin"
        cb_cfg: dict = {}
        for i in range(ks["nroots"]):
            cb_cfg[f"rootCertificate{i}File"] = key_path(curve, root_role(ks, i), pub=True)
        if not vc.get("auto_root_id"):
            cb_cfg["mainRootCertId"] = ks["used"]
        root_key = key_path(curve, root_role(ks, ks["used"]))
        if ks.get("isk"):
            cb_cfg["useIsk"] = True
            cb_cfg["iskPublicKey" if vc.get("new_names") else "signingCertificateFile"] = key_path(ks["isk"], "isk", pub=True)
            cb_cfg["iskCertificateConstraint" if vc.get("new_names") else "signingCertificateConstraint"] = _num(ks.get("constraints", 0), st)
            ud = gen_bytes(77, ks.get("isk_user_data", 0))
            if ud:
                with open(os.path.join(td, "isk_data.bin"), "wb") as f:
                    f.write(ud)
                cb_cfg["iskCertData" if vc.get("new_names") else "signCertData"] = "isk_data.bin"
            cb_cfg["signPrivateKey" if vc.get("new_names") else "mainRootCertPrivateKeyFile"] = root_key
            cb_cfg["family"] = "lpc55s3x"
            if vc.get("certblock") == "bin":
                cb = S.CertBlockV21.from_config(dict(cb_cfg), search_paths=[td])
                with open(os.path.join(td, "cb.bin"), "wb") as f:
                    f.write(cb.export())
                cfg["certBlock"] = "cb.bin"
            else:
                cfg["certBlock"] = self.write_cb_config(td, cb_cfg, len(pre_cmds))
            cfg["signPrivateKey"] = key_path(ks["isk"], "isk")
        else:
            cb_cfg["useIsk"] = False
            if vc.get("certblock") in ("file", "bin"):
                cb_cfg["family"] = "lpc55s3x"
                cb_cfg["signPrivateKey"] = root_key
                if vc.get("certblock") == "bin":
                    cb = S.CertBlockV21.from_config(dict(cb_cfg), search_paths=[td])
                    with open(os.path.join(td, "cb.bin"), "wb") as f:
                        f.write(cb.export())
                    cfg["certBlock"] = "cb.bin"
                else:
                    cfg["certBlock"] = self.write_cb_config(td, cb_cfg, len(pre_cmds))
            else:
                cfg.update(cb_cfg)
            cfg["signPrivateKey" if vc.get("new_names") else "mainRootCertPrivateKeyFile"] = root_key
        cmds = []
        self.pre_expected = []
        for i, c in enumerate(pre_cmds):
            entry, tup = make_cfg_cmd(c, td, i)
            cmds.append(entry)
            self.pre_expected.append(tup)
        cfg["commands"] = cmds
        self.probe("built_from_config")
        if ks.get("isk"):
            self.probe("config_with_isk_certblock_" + vc.get("certblock", "file"))
        return S.SecureBinary31.load_from_config(cfg, search_paths=[td])

    def write_cb_config(self, td: str, cb_cfg: dict, ncmds: int) -> str:
        """The certificate block configuration lives in a folder of its own (shared between projects), next to files that
        happen to have the names of this project's command files."""
        if not self.plan["via_config"].get("cb_subdir"):
            with open(os.path.join(td, "cb.json"), "w") as f:
                json.dump(cb_cfg, f)
            return "cb.json"
        sub = os.path.join(td, "certs")
        os.makedirs(sub, exist_ok=True)
        rel = dict(cb_cfg)
        if rel.get("iskCertData") or rel.get("signCertData"):
            k = "iskCertData" if rel.get("iskCertData") else "signCertData"
            rel[k] = os.path.join(td, rel[k])
        with open(os.path.join(sub, "cb.json"), "w") as f:
            json.dump(rel, f)
        for i in range(ncmds):
            for ext in (".bin", ".txt"):
                with open(os.path.join(sub, f"d{i}{ext}"), "wb") as f:
                    f.write(b"decoy" * 7 if ext == ".bin" else b"00" * 16)
        self.probe("cert_block_config_in_its_own_folder")
        return os.path.join(sub, "cb.json")  # (absolute: its folder is added to the search paths as it is written)

    def build(self):
        p = self.plan
        ks = p["keys"]
        curve = ks["curve"]
        roots_pub = [open(key_path(curve, root_role(ks, i), pub=True), "rb").read() for i in range(ks["nroots"])]
        self.roots_xy = [pub_xy(key_path(curve, root_role(ks, i), pub=True)) for i in range(ks["nroots"])]
        root_sp = S.PlainFileSP(key_path(curve, root_role(ks, ks["used"])))
        spf = p.get("sp_fail") or {}
        self.sp_failures = {}
        if ks.get("isk"):
            isk_pub = open(key_path(ks["isk"], "isk", pub=True), "rb").read()
            ud = gen_bytes(77, ks.get("isk_user_data", 0)) or None
            if spf.get("who") == "root":
                root_sp = flaky_sp(root_sp, spf["n"], self.sp_failures)
            cb = S.CertBlockV21(root_certs=roots_pub, ca_flag=False, used_root_cert=ks["used"], constraints=ks.get("constraints", 0), signature_provider=root_sp, isk_cert=isk_pub, user_data=ud)
            sp = S.PlainFileSP(key_path(ks["isk"], "isk"))
            self.sign_curve = ks["isk"]
        else:
            cb = S.CertBlockV21(root_certs=roots_pub, ca_flag=True, used_root_cert=ks["used"])
            sp = root_sp
            self.sign_curve = curve
        if spf.get("who") == "container":
            sp = flaky_sp(sp, spf["n"], self.sp_failures)
        for _attempt in range(4):
            try:
                cb.calculate()
                break
            except S.SPSDKError:
                if not spf or self.sp_failures.get("n", 0) > spf["n"]:
                    raise
                self.fault("signing_service_unreachable")  # the caller simply tries again
        self.pck = gen_bytes(p.get("pck_seed", 1), p["pck_bits"] // 8)
        self.expected_ts = p["timestamp"] if p.get("timestamp") else int(EPOCH + (CLOCK.now_us + CLOCK.wall_offset_us) / 1e6) - 946684800
        sb = S.SecureBinary31(
            family="lpc55s3x",
            cert_block=cb,
            firmware_version=p["fw"],
            signature_provider=sp,
            pck=self.pck if p["encrypted"] else None,
            kdk_access_rights=p["rights"] if p["encrypted"] else None,
            description=p.get("desc"),
            is_nxp_container=bool(p.get("nxp")),
            flags=p.get("flags", 0),
            timestamp=p.get("timestamp") or None,
            is_encrypted=p["encrypted"],
        )
        return sb

    def rom(self):
        from c05.rom31 import Rom31, rotkh_of

        p = self.plan
        return Rom31(rotkh_of(self.roots_xy), self.pck if p["encrypted"] else None, p["rights"], p["encrypted"])

    def check_export(self, data: bytes, expected: list, j: int, label: str) -> dict | None:
        from c05.rom31 import RomReject

        p = self.plan
        try:
            res = self.rom().load(data)
        except RomReject as exc:
            self.violation("rom-rejects-export", f"export#{min(j, 2)}:{exc.stage}", f"{label}: the ROM-loader model rejects the container: {exc}")
            return None
        if res["commands"] != expected:
            n = next((i for i, (a, b) in enumerate(zip(res["commands"], expected)) if a != b), min(len(res["commands"]), len(expected)))
            got = res["commands"][n] if n < len(res["commands"]) else None
            want = expected[n] if n < len(expected) else None
            kind = (want or got)[0]
            self.violation("commands-differ", f"cmd:{kind}", f"{label}: decoded command {n} is {_short(got)}, supplied {_short(want)} ({len(res['commands'])} decoded, {len(expected)} supplied)")
        hl = 32 if self.sign_curve == "p256" else 48
        desc = (p.get("desc") or "").encode("ascii")[:16].ljust(16, b"\0")
        nblocks = (len(data) - res["total_length"]) // res["block_size"]
        want = {
            "firmware_version": p["fw"],
            "timestamp": self.expected_ts,
            "flags": p.get("flags", 0),
            "description": desc,
            "image_type": 7 if p.get("nxp") else 6,
            "block_size": 260 + hl,
            "block_count": nblocks,
        }
        for k, v in want.items():
            if res[k] != v:
                self.violation("header-field", k, f"{label}: header field {k} is {res[k]!r}, expected {v!r}")
        if not res["last_next_hash_zero"]:
            self.probe("last_block_next_hash_nonzero")
        self.probe(f"stream_end_mod256_{'zero' if (sum(_cmd_len(e) for e in expected) + 16) % 256 == 0 else 'other'}")
        return res

    def execute(self) -> dict:  # noqa: C901 pylint: disable=too-many-branches,too-many-statements,too-many-locals
        from c05.rom31 import RomReject

        p = self.plan
        if p.get("prelude"):
            # another container was built and exported in this process before (other keys, PCK, timestamp, rights):
            # nothing of it may leak into this one
            sub = Run(p["prelude"])
            sub.execute()
            if sub.td:
                self.td = sub.td  # the same project folder: the same file names with other contents
            self.records += sub.records
            self.log.add("prelude", sub.log.digest())
            self.probe("container_built_after_another_in_the_same_process")
        CLOCK.reset()
        CLOCK.advance(p.get("t0_us", 0))
        pre_idx: list = []
        if p.get("via_config"):
            for k, op in enumerate(p["ops"]):
                if op["op"] == "export":
                    break
                if op["op"] == "add":
                    pre_idx.append(k)
            try:
                sb = self.build_from_config([p["ops"][k]["cmd"] for k in pre_idx])
            except S.SPSDKError as exc:
                raise HarnessError(f"the generated configuration was refused: {type(exc).__name__}: {exc}") from exc
        else:
            sb = self.build()
        expected: list = []
        exports: list = []  # (bytes, expected list snapshot)
        ndeliver = 0
        for k, op in enumerate(p["ops"]):
            name = op["op"]
            if name == "add" and k in pre_idx:
                expected.append(self.pre_expected[pre_idx.index(k)])
                self.log.add("add-config", op["cmd"]["t"], op["cmd"].get("l"))
            elif name == "add":
                cmd, tup = make_cmd(op["cmd"])
                how = op.get("how", "api")
                if how == "append":
                    sb.sb_commands.commands.append(cmd)  # the command list is a public attribute: edited in place
                    expected.append(tup)
                elif how == "replace" and expected:
                    i = op.get("at", 0) % len(expected)
                    sb.sb_commands.commands[i] = cmd
                    expected[i] = tup
                elif how == "edit" and expected and op["cmd"].get("a") is not None and expected[op.get("at", 0) % len(expected)][0] in ("erase", "load", "execute", "call", "fill_memory"):
                    # a field of a command that is already in the list is changed between two exports
                    i = op.get("at", 0) % len(expected)
                    sb.sb_commands.commands[i].address = op["cmd"]["a"]
                    expected[i] = (expected[i][0], op["cmd"]["a"]) + tuple(expected[i][2:])
                elif how == "insert":
                    i = op.get("at", 0) % (len(expected) + 1)
                    sb.sb_commands.insert_command(i, cmd)
                    expected.insert(i, tup)
                elif how == "set":
                    lst = list(sb.sb_commands.commands) + [cmd]
                    sb.sb_commands.set_commands(lst)
                    lst.clear()  # the caller's list is the caller's
                    expected.append(tup)
                else:
                    sb.sb_commands.add_command(cmd)
                    expected.append(tup)
                self.log.add("add", how, op["cmd"]["t"], op["cmd"].get("l"))
            elif name == "tick":
                CLOCK.advance(op["us"])
            elif name == "export":
                j = len(exports)
                label = f"op {k}: export #{j + 1}"
                if not expected:
                    continue
                data = None
                for _attempt in range(4):
                    before = getattr(self, "sp_failures", {}).get("n", 0)
                    try:
                        data = sb.export()
                        break
                    except S.SPSDKError as exc:
                        if getattr(self, "sp_failures", {}).get("n", 0) > before:
                            self.fault("signing_service_unreachable")  # an injected failure: the caller tries again
                            continue
                        self.violation("export-raises", f"export#{min(j + 1, 2)}:{type(exc).__name__}", f"{label}: export raised {type(exc).__name__}: {exc}")
                        break
                if data is None:
                    continue
                res = self.check_export(data, expected, j + 1, label)
                exports.append((data, list(expected), res is not None))
                self.log.add("export", j, len(data), hashlib.sha256(_mask_sig(data, res)).hexdigest()[:16] if res else "rejected")
                if len(self.trace) < 40:
                    self.trace.append([k, "export", j + 1, len(data), "accepted" if res else "rejected", len(expected)])
            elif name == "flip":
                if not exports:
                    continue
                data, exp, valid = exports[op["which"] % len(exports)]
                if not valid:
                    continue
                pos = _flip_pos(op, data)
                g = bytearray(data)
                g[pos] ^= 1 << (op["bit"] & 7)
                self.fault("storage_bit_flip")
                try:
                    self.rom().load(bytes(g))
                except RomReject as exc:
                    self.probe("flip_rejected_at_" + exc.stage)
                else:
                    self.violation("corruption-accepted", _region(pos, data), f"op {k}: the ROM-loader model accepts the container with bit {op['bit'] & 7} of byte {pos}/{len(data)} flipped: a byte outside the signature-plus-hash-chain coverage")
                self.log.add("flip", pos, op["bit"] & 7)
            elif name == "deliver":
                if not exports:
                    continue
                data, exp, valid = exports[op["which"] % len(exports)]
                if not valid:
                    continue  # already reported; a container the ROM refuses is not expected to be delivered successfully
                self.deliver(k, op, data, exp, ndeliver)
                ndeliver += 1
            else:
                raise HarnessError(f"op {name}")
            if len(self.records) > 12:
                break
        self.n_exports = len(exports)
        return self.result()

    def deliver(self, k: int, op: dict, data: bytes, exp: list, nd: int) -> None:
        from c05.rom31 import RomReject

        c10 = S.c10
        link_plan = {"transport": op["transport"], "max_packet": op["max_packet"], "knobs": op["knobs"]}
        s = c10.Session(link_plan, self.log)
        rom = self.rom()
        effect: list = []

        def sink(blob: bytes) -> int:
            try:
                res = rom.load(blob)
            except RomReject:
                return 10101  # kStatusRomLdrSignature
            effect.append(res["commands"])
            return 0

        s.core.sb_sink = sink
        try:
            s.open()
        except Exception as exc:  # pylint: disable=broad-except
            raise HarnessError(f"fault-free open failed: {exc}") from exc
        helper = c10.Run({"ops": [], "faults": []})
        fp = helper.fault_plan_for(s, 0, op.get("faults", []))
        s.link.new_op(fp)
        s.link.max_io_calls = 200 * (len(data) // op["max_packet"] + 10) + 4000
        outcome = None
        try:
            ret = s.mb.receive_sb_file(data, check_errors=bool(op.get("check_errors")))
            outcome = ("ret", ret)
        except s.lk.Unbounded as exc:
            outcome = ("unbounded", str(exc))
        except S.SPSDKError as exc:
            outcome = ("spsdk_exc", type(exc).__name__)
        except Exception as exc:  # pylint: disable=broad-except
            outcome = ("other_exc", type(exc).__name__)
        for kk, v in list(fp.fired.items()) + list(s.core.fired.items()):
            self.fault("link_" + kk, v)
        faulted = bool(fp.fired) or bool(s.core.fired)
        if fp.extra_fired:
            # a fault kind the C10 statement does not name (late arrival) fired: observed, never judged
            for kk, v in fp.extra_fired.items():
                self.obs["extra_" + kk] = self.obs.get("extra_" + kk, 0) + v
            try:
                s.close()
            except Exception:  # pylint: disable=broad-except
                pass
            return
        success = outcome[0] == "ret" and outcome[1] is True and s.mb.status_code == 0
        label = f"op {k}: delivery of export over {op['transport']}"
        if outcome[0] in ("other_exc", "unbounded"):
            self.violation("delivery-" + outcome[0], outcome[1], f"{label}: {outcome}")
        if success:
            if effect != [exp]:
                self.violation("wrong-success", "receive_sb_file:effect", f"{label}: receive_sb_file reported success but the device executed {len(effect)} containers / a different command list")
            self.probe("delivery_success" + ("_despite_fault" if faulted else ""))
        else:
            if not faulted:
                self.violation("fault-free-delivery-failed", outcome[0], f"{label}: no fault was injected but the call ended with {outcome}, status {s.mb.status_code}")
            self.probe("delivery_failed")
        self.log.add("deliver", nd, outcome[0], str(outcome[1])[:40], s.mb.status_code, len(effect), sorted(fp.fired))
        if len(self.trace) < 40:
            self.trace.append([k, "deliver", op["transport"], outcome[0], str(outcome[1])[:30], s.mb.status_code, sorted(fp.fired) + sorted(s.core.fired)])
        try:
            s.close()
        except Exception:  # pylint: disable=broad-except
            pass

    def result(self) -> dict:
        p = self.plan
        ncmds = sum(1 for o in p["ops"] if o["op"] == "add")
        nexp = getattr(self, "n_exports", 0)
        fired = sum(self.faults.values())
        if fired:
            self.obs["faulted_runs"] = 1
        elif nexp >= 2:
            self.obs["history_runs"] = 1
        else:
            self.obs["control_runs"] = 1
        self.obs["exports"] = nexp
        ksig = [p["keys"], p["pck_bits"], p["rights"], p["encrypted"], bool(p.get("timestamp")), [(o.get("transport"), o.get("max_packet")) for o in p["ops"] if o["op"] == "deliver"]]
        fsig = [[o["op"], o.get("region"), [(f.get("kind"), f.get("pos")) for f in o.get("faults", [])]] for o in p["ops"] if o["op"] in ("flip", "deliver")]
        shape = [[o["op"], o.get("cmd", {}).get("t"), (o.get("cmd", {}).get("l") or 0) % 16] for o in p["ops"] if o["op"] in ("add", "export")]
        seen, out = set(), []
        for r in self.records:
            kk = (r["oracle"], r["site"])
            if kk not in seen:
                seen.add(kk)
                out.append(r)
        return {
            "records": out,
            "digest": self.log.digest(),
            "sig": [digest(ksig)[:16], digest(fsig)[:16], digest(shape)[:16]],
            "nontrivial": ncmds >= 2 or nexp >= 2 or fired > 0,
            "faults": self.faults,
            "probes": self.probes,
            "obs": self.obs,
            "sim_time_us": CLOCK.now_us,
            "steps": len(p["ops"]),
            "trace": self.trace,
        }


def _cmd_len(tup) -> int:
    t = tup[0]
    if t in ("erase", "copy", "fill_memory"):
        return 32
    if t in ("load", "load_cmac"):
        return 32 + (len(tup[2]) + 15) // 16 * 16
    if t == "load_hash_locking":
        return 32 + (len(tup[2]) + 15) // 16 * 16 + 64
    if t in ("program_fuses", "program_ifr"):
        return 16 + (len(tup[2]) + 15) // 16 * 16
    if t == "load_key_blob":
        return (16 + len(tup[3]) + 15) // 16 * 16
    return 16


def _short(t):
    if t is None:
        return "nothing"
    return "(" + ", ".join((f"<{len(x)} bytes {hashlib.sha256(x).hexdigest()[:8]}>" if isinstance(x, (bytes, bytearray)) else (hex(x) if isinstance(x, int) else repr(x))) for x in t) + ")"


def _mask_sig(data: bytes, res: dict) -> bytes:
    """Signature bytes (container and ISK) are nondeterministic; everything after block 0 depends on them through
    nothing (the chain starts from the blocks), so mask block 0's signature areas only by hashing the blocks."""
    return data[res["total_length"] :]


def _flip_pos(op: dict, data: bytes) -> int:
    n = len(data)
    region = op.get("region", "any")
    hl = struct.unpack_from("<L", data, 16)[0] - 260
    tot = struct.unpack_from("<L", data, 36)[0]
    bsz = 260 + hl
    r = op["r"]
    if region == "header":
        return r % 60
    if region == "h1":
        return 60 + r % hl
    if region == "cert":
        return 60 + hl + r % max(1, tot - 60 - hl - 2 * hl)
    if region == "sig":
        return tot - 2 * hl + r % (2 * hl)
    if region == "blockhdr" and n > tot:
        nb = (n - tot) // bsz
        return tot + (r % nb) * bsz + (r // 7) % (4 + hl)
    if region == "last":
        return n - 1 - r % min(256, n)
    return r % n


def _region(pos: int, data: bytes) -> str:
    hl = struct.unpack_from("<L", data, 16)[0] - 260
    tot = struct.unpack_from("<L", data, 36)[0]
    if pos < 60:
        return "header"
    if pos < 60 + hl:
        return "hash-of-block-1"
    if pos < tot - 2 * hl:
        return "cert-block"
    if pos < tot:
        return "signature"
    off = (pos - tot) % (260 + hl)
    return "block-number" if off < 4 else ("block-next-hash" if off < 4 + hl else "block-payload")


def execute(plan: dict) -> dict:
    import shutil

    worker_init()
    run = Run(plan)
    try:
        return run.execute()
    finally:
        if run.td:
            shutil.rmtree(run.td, ignore_errors=True)


# ----------------------------------------------------------------------------------------------
# generation


def gen_cmd(rng: random.Random) -> dict:
    t = rng.choice(["load"] * 6 + ["erase"] * 2 + ["execute", "call", "program_fuses", "program_ifr", "load_cmac", "copy", "load_hash_locking", "load_key_blob", "configure_memory", "fill_memory", "fw_version_check", "reset"])
    a = rng.choice([0, 0x1000, 0x2000_0000, 0x0800_0000, rng.randrange(1 << 32), 0xFFFF_FFFF, 0xFFFF_FFF0])
    m = rng.choice([0, 0, 1, 9, 0x100, 0x110, rng.randrange(1 << 32)])
    ln = rng.choice([1, 2, 15, 16, 17, 31, 32, 48, 100, 208, 223, 224, 225, 240, 255, 256, 257, 480, 512, rng.randint(1, 700), rng.randint(1, 3000)])
    s = rng.randrange(1 << 30)
    if t in ("load", "load_cmac", "load_hash_locking"):
        return {"t": t, "a": a, "l": ln, "m": m, "s": s}
    if t == "erase":
        return {"t": t, "a": a, "l": rng.choice([0x1000, 1, 0, rng.randrange(1 << 32)]), "m": m}
    if t in ("execute", "call"):
        return {"t": t, "a": a}
    if t == "program_fuses":
        return {"t": t, "a": rng.randrange(0, 0x400), "l": 4 * rng.randint(1, 12), "s": s}
    if t == "program_ifr":
        return {"t": t, "a": a, "l": rng.choice([4, 16, 32, 64, 4 * rng.randint(1, 40), rng.randint(1, 100)]), "s": s}
    if t == "copy":
        return {"t": t, "a": a, "l": rng.randrange(1 << 32), "d": rng.randrange(1 << 32), "mf": m, "mt": rng.choice([0, 9, 0x100])}
    if t == "load_key_blob":
        return {"t": t, "o": rng.choice([0, 0x10, 0x20, rng.randrange(1 << 16)]), "l": rng.choice([32, 48, 64, 100, rng.randint(1, 300)]), "w": rng.choice([16, 17, 18, 19, rng.randrange(1 << 16)]), "s": s}
    if t == "configure_memory":
        return {"t": t, "a": a, "m": m}
    if t == "fill_memory":
        return {"t": t, "a": a, "l": rng.choice([4, 0x100, rng.randrange(1 << 32)]), "p": rng.choice([0, 0xFFFFFFFF, 0xA5A5A5A5, rng.randrange(1 << 32), 0x5A, 0xFF, 0x1234, 0xFFFF, 1])}
    if t == "fw_version_check":
        return {"t": t, "v": rng.randrange(1 << 32), "c": rng.randint(1, 5)}
    return {"t": "reset"}


def gen_plan(family: str, i: int, rng: random.Random, tier: str) -> dict:
    from c10 import sim as c10sim

    curve = rng.choice(["p256", "p384"])
    nroots = rng.choice([1, 2, 3, 4, 4])
    isk = rng.choice([None, None, curve, "p256", "p384"])
    plan = {
        "keys": {"curve": curve, "nroots": nroots, "used": rng.randrange(nroots), "isk": isk, "isk_user_data": rng.choice([0, 0, 4, 16, 32, 96]) if isk else 0, "constraints": rng.choice([0, 1, rng.randrange(1 << 32)]), "special": [rng.randrange(nroots), rng.choice(["rootz", "rooty"])] if rng.random() < 0.15 else None},
        "pck_bits": rng.choice([128, 256]),
        "pck_seed": rng.randrange(1 << 20),
        "rights": rng.randrange(4),
        "encrypted": rng.random() < 0.75,
        "fw": rng.choice([0, 1, rng.randrange(1 << 32)]),
        "desc": rng.choice([None, "", "a", "exactly16chars__", "longer than sixteen chars", "v1.2", " lead", "trail ", " both ", "in side", "fifteen chars  x"[:15] + " "]),
        "flags": rng.choice([0, 0, 1, 0x8000, rng.randrange(1 << 32)]),
        "timestamp": rng.choice([None, 1, 648887095, rng.randrange(1, 1 << 40), (1 << 64) - 1]),
        "nxp": rng.random() < 0.15,
        "t0_us": rng.choice([0, 1_000_000, rng.randrange(10**12)]),
        "ops": [],
    }
    ops = plan["ops"]
    for _ in range(rng.randint(1, 6)):
        ops.append({"op": "add", "cmd": gen_cmd(rng)})
    ops.append({"op": "export"})
    if rng.random() < 0.12:
        plan["sp_fail"] = {"who": rng.choice(["root", "container"]) if isk else "container", "n": rng.choice([1, 1, 2])}
    if rng.random() < 0.3:
        # the configuration route: the same container described as nxpimage's configuration
        plan["via_config"] = {
            "num": rng.choice(["int", "hex", "dec", "HEX"]),
            "pck_form": rng.choice(["hex", "txt", "bin"]),
            "pck_always": rng.random() < 0.5,
            "auto_root_id": rng.random() < 0.3,
            "new_names": rng.random() < 0.5,
            "certblock": rng.choice(["inline", "file", "bin"]),
            "cb_subdir": rng.random() < 0.5,
        }
        for o in ops:
            if o["op"] == "add":
                o["cmd"].update(num=rng.choice(["int", "hex", "dec", "HEX", "bin"]), form=rng.choice(["file", "values", "value"]), explicit_mem=rng.random() < 0.5, auth_none=rng.random() < 0.2, via_load=rng.random() < 0.4)
                if o["cmd"]["t"] in ("load", "program_ifr") and rng.random() < 0.4:
                    o["cmd"]["l"] = rng.choice([4, 8, 4, 12, 16, 64, 96])
    if family == "control":
        return plan

    def link_op(faulty: bool) -> dict:
        transport = rng.choice(["uart", "hid"])
        mp = rng.choice([32, 56, 64, 256, 512, 1016]) if transport == "hid" else rng.choice([32, 64, 256, 512, 1024])
        knobs = {"timeout_ms": rng.choice([500, 2000, 5000]), "byte_us": rng.choice([87, 10]), "latency_us": rng.choice([50, 200, 2000]), "not_ready": rng.choice([0, 0, 2]) if transport == "uart" else 0, "slow_us": 0, "cmd_exception": rng.random() < 0.2}
        o = {"op": "deliver", "which": rng.randrange(4), "transport": transport, "max_packet": mp, "knobs": knobs, "check_errors": rng.random() < 0.4, "faults": []}
        if faulty:
            fake_ops = [{"op": "receive_sb_file", "len": 2000}]
            o["faults"] = [c10sim.gen_fault(rng, 1, transport, fake_ops, mp, extra_ok=False) for _ in range(rng.choice([1, 1, 2]))]
        return o

    if family == "history":
        if rng.random() < 0.35:
            plan["prelude"] = gen_plan("control", i, rng, tier)
            if not plan.get("via_config"):
                plan["prelude"].pop("via_config", None)  # (two configuration builds share one project folder)
        for _ in range(rng.randint(1, 4)):
            r = rng.random()
            if r < 0.45:
                ops.append({"op": "export"})
            elif r < 0.75:
                for _j in range(rng.randint(1, 3)):
                    # between two exports the command list is changed through the API or edited in place
                    ops.append({"op": "add", "cmd": gen_cmd(rng), "how": rng.choice(["api", "api", "append", "replace", "insert", "set", "edit", "edit"]), "at": rng.randrange(8)})
                ops.append({"op": "export"})
            elif r < 0.85:
                ops.append({"op": "tick", "us": rng.choice([1, 1_000_000, 3_600_000_000])})
            else:
                ops.append(link_op(False))
        return plan
    if family == "faulted":
        for _ in range(rng.randint(1, 5)):
            r = rng.random()
            if r < 0.6:
                ops.append({"op": "flip", "which": rng.randrange(4), "region": rng.choice(["any", "any", "header", "h1", "cert", "sig", "blockhdr", "last"]), "r": rng.randrange(1 << 30), "bit": rng.randrange(8)})
            elif r < 0.9:
                ops.append(link_op(True))
            else:
                ops.append({"op": "export"})
        return plan
    raise HarnessError(family)


def families(tier: str):
    if tier == "quick":
        return [("control", 2500), ("history", 3000), ("faulted", 3500)]
    return [("control", 150000), ("history", 200000), ("faulted", 250000)]


def reductions(plan: dict):
    yield from ddmin_lists(plan, [["ops"]])
    for k, o in enumerate(plan["ops"]):
        if o["op"] == "add" and o["cmd"].get("l", 0) > 1 and o["cmd"]["t"] not in ("erase", "copy", "fill_memory"):
            for nl in (4, 16, o["cmd"]["l"] // 2):
                if 0 < nl < o["cmd"]["l"] and (o["cmd"]["t"] != "program_fuses" or nl % 4 == 0):
                    c = copy.deepcopy(plan)
                    c["ops"][k]["cmd"]["l"] = nl
                    yield c
        if o["op"] == "deliver" and o.get("faults"):
            yield from ddmin_lists(plan, [["ops", k, "faults"]])
    if plan.get("prelude"):
        c = copy.deepcopy(plan)
        c.pop("prelude")
        yield c
    for key, val in (("nxp", False), ("desc", None), ("flags", 0), ("fw", 0), ("t0_us", 0), ("timestamp", 1)):
        if plan.get(key) != val:
            c = copy.deepcopy(plan)
            c[key] = val
            yield c
    if plan["keys"].get("isk"):
        c = copy.deepcopy(plan)
        c["keys"]["isk"] = None
        c["keys"]["isk_user_data"] = 0
        yield c
    if plan["keys"]["nroots"] > 1:
        c = copy.deepcopy(plan)
        c["keys"]["nroots"] = 1
        c["keys"]["used"] = 0
        yield c
    if plan["encrypted"]:
        c = copy.deepcopy(plan)
        c["encrypted"] = False
        yield c
