#!/venv/bin/python
"""Regenerates MANIFEST.json from the table below (kept as a script so the manifest stays consistent)."""
import json
import os

HERE = os.path.dirname(os.path.abspath(__file__))

NA = {
    "C01": "MBI parse(export(x)) = x is a pure function of (family, config, payload): no schedule, clock, fault or history to simulate; its only entropy use (counter IV) is C17's subject.",
    "C02": "MBI signature/CRC/HMAC validity is a pure function of image bytes and keys; the bit flips in its quantifier validate a reference verifier, they are not faults the code meets at run time.",
    "C03": "The RoT hash is a pure function of root key material and encoding; no state, clock, I/O or peer.",
    "C06": "AHAB container validity and offsets are pure functions of configuration and images; corruption sweeps over an in-memory buffer are input enumeration, and AHAB images meet no SPSDK protocol with a response.",
    "C07": "HAB layout/CSF/encryption is a pure function of its inputs; the self-chosen DEK/nonce is C17's subject and the CMS signing time is not quantified over.",
    "C08": "Key serialisation and sign/verify soundness are pure functions of keys, messages and encodings; OpenSSL's signing nonce does not influence the verdict.",
    "C09": "Ciphers, MACs, hashes, CRCs and KDFs are pure functions; the Counter helper's state is one integer with no schedule or fault.",
    "C12": "Per-device configuration areas round-trip as a pure function of database content and register values; database loading under crashes is C18.",
    "C13": "OTFAD/IEE/BEE encryption is a pure function of (keys, address, plaintext); self-chosen keys are C17's subject.",
    "C14": "Bootable image segment placement is a pure function of (family, memory type, segments).",
    "C15": "Debug-authentication credentials/responses are pure functions of (keys, fields, challenge); the mailbox transport is not part of the statement.",
    "C16": "BinaryImage composition and file formats are pure functions of the image tree; the file system is used only as a buffer and nothing is stated under faults.",
    "C19": "BD command-file compilation is a pure function of the program text (a compiler property).",
    "C20": "Number parsing and alignment helpers are pure functions of their arguments.",
}

CHECKS = {
    "C18": {
        "engine": "dbcache-sim",
        "level": "fault_enumeration",
        "text": "Deterministic simulation of 1..16 real forked SPSDK processes doing first-use of the database on one cache folder (a quarter of the runs with processes that also import SPSDK themselves under the interposer, some with the cache folder absent; one family with restricted-data and add-ons folders): a seeded scheduler in the parent parks every process at every cache-folder system call (open/stat/remove/rename/flock/sleep), decides who runs next (seeded, bursty and lockstep schedules; processes descheduled for 60-1000 ms at chosen seams, by index or by kind - right before remove / open-for-write / commit), kills processes at chosen yield points, tears cache writes at chosen byte lengths, leaves a lock holder unscheduled beyond the 10 s lock time-out, and edits or deletes data files between runs (size-changing and size-preserving edits); the tearsweep family kills the real writer at enumerated bytes of its rewrite of an outdated cache; prefix sweeps enumerate truncation lengths of both cache files (quick: every byte length of the quick-info cache; thorough: every byte length of both tiny-profile files). Oracles: never fatal (incl. a liveness bound in simulated time), answers equal to a no-cache reference process, cache healed within two clean starts. Sampling, not proof: crash points are enumerated, interleavings are sampled.",
        "note": "Trusted: the scheduler/interposer in /verif/c18, pre-emption only at cache-folder system calls, the reference process of the same tree (only cache-induced differences are flagged), kernel flock semantics. Disk-full and bit rot are out of scope.",
        "technique": "deterministic simulation with fault injection: seeded schedule search over real forked processes parked at file-system seams, kill/torn-write/prefix enumeration, history oracles against a no-cache reference",
        "design_ref": "4.1",
    },
}

CHECKS["C10"] = {
    "engine": "bootlink-sim",
    "level": "fault_enumeration",
    "text": "Co-simulation of the real host stack (McuBoot + serial/bulk protocol classes + SerialDevice/UsbDevice) against a reference bootloader device model behind the third-party driver seam (pyserial Serial, libusbsio HID) with a simulated clock: seeded histories of 1..12 API calls with boundary-straddling lengths, seeded multi-fault plans (bit flip, dropped byte, truncated/missing/late response, NAK, ABORT, device error status, aborted data phase; HID missing/abort/short report) and position sweeps that inject every listed fault kind at every device-to-host stream position of short histories. Oracles compare the device-side history with the caller-visible result: exact in the fault-free configuration, 'failure or documented exception, never a wrong success, bounded simulated time' under faults.",
    "note": "Trusted: the device model in /verif/c10 (written from the protocol definition, validated by the fault-free control configuration), the simulated drivers, the clock seam. CRC-consistent corruption and fault kinds the statement does not name are observed, never judged. A device error status that ends a command cleanly does not close the history: the following calls are judged as fault-free calls. SDP/SDPS run against their own ROM model (sdp_control / sdp_faulty / sdps families; SDPS ROM parameters are read from the database files independently of SPSDK). Aimed families place what sampling may miss: the device refuses exactly the last data packet of a data phase (lastpkt), a call is answered with an error status and others follow (refused), property listings are interleaved with decodes for other families (props), the 19 parameter-only trust-provisioning / WPC / DSC-HSM / EL2GO calls plus ele_message and flash_security_disable are refused in their own response format or in the generic one (tprov). SDP histories include the validating wrappers read_safe / write_safe. A call that reports success although the device answered one of its commands with an error status is a violation whatever data came back (device-error-status-lost). A third of the faulty sessions go on after a link fault without a reopen: later calls are judged for wrong success. One genuine finding is recorded, not repaired: over USB-HID reports left over from a failed exchange answer later calls (known_findings.json). Every run executes in a forked copy of the worker.",
    "technique": "deterministic simulation with fault injection: seeded API histories against a reference device model over a simulated link, fault-position sweeps, history oracles",
    "design_ref": "4.2",
}

CHECKS["C17"] = {
    "engine": "entropy-history-sim",
    "level": "exploration",
    "text": "Seeded histories of artifact constructions (SB2.0/2.1 default, partly explicit and explicit parameters; encrypted MBI through the generated class and through load_from_config; OTFAD, IEE, BEE key blobs; OTFAD through load_from_config with the KEK left to SPSDK; one MBI / OTFAD configuration dictionary used for several builds; HAB DEK and nonce in a durable workspace, also through the complete nxpimage hab export route (HabContainer.load_from_config on a committed example); the legacy BootImgRT class; BEE / IEE through load_from_config incl. empty keys and reused dictionaries; a BD keywrap statement; one MBI object loaded twice; SB2.1 through the BD-file configuration path; helper objects and parsed configurations shared between builds; os.fork workers inside a lifetime) across 1..3 simulated interpreter lifetimes (forked children that import spsdk afresh in a plan-chosen module order). Two builds of one HAB project may be interleaved in one folder (second build runs right after the first closed its key file); the global PRNG is seeded per lifetime from the entropy device and, in 30 % of the histories, by the application with a constant. OS entropy is replaced by an injective counter device and the wall clock by a simulated one that the plan repeats or steps back across restarts, so two equal secrets can only come from reuse in the code (default argument, class-level value, value derived from the clock). Oracle: all self-chosen slots of a history are pairwise distinct and no (key, nonce) pair repeats. Sampling of histories, not proof.",
    "note": "Trusted: the entropy/clock seams at the stdlib boundary (secrets, os.urandom, time, datetime), fork + fresh import as the model of a restart, the slot readers in /verif/c17/epoch.py. OpenSSL's own RNG is not observed.",
    "technique": "deterministic simulation with fault injection: injective entropy device + repeatable clock across simulated restarts, seeded construction histories, pairwise-freshness oracle",
    "design_ref": "4.3",
}

CHECKS["C11"] = {
    "engine": "register-refinement",
    "level": "exploration",
    "text": "Seeded operation histories (1..40 register / bit-field / enum writes with boundary values 0, 1, 2^w-1, 2^w, 2^w+1, negative, in int / hex / dec / bin forms; enum names that look like numbers; resets; export->parse into a twin; parse of every prefix of the export; alternative-width group writes; get_config->load_yml_config into a fresh twin; 16 read-only queries; deep copies written independently of the original; exports with a non-zero fill pattern) on generated register layouts (widths 8..512, partitioning bit-fields with hidden gaps, enums, shift-right config processors, grouped registers with normal and reversed sub-register order, reversed byte order on groups and on plain registers with bit-fields, both endiannesses) checked step by step against a bit-vector reference model, with a structural snapshot around every query. This is the history / refinement half of the technique only: the code has no clock, I/O, entropy or thread, so the fault set is empty and the evidence says so. Every run executes in a forked copy of the worker, so state kept in class attributes cannot travel between runs.",
    "note": "Trusted: the reference model and layout generator in /verif/c11 (layouts follow the real specifications: bit-fields partition the register, 'reversed' in specifications on groups only - plain registers get the flag on the object, as a programmatic construction does, and raw bit-field writes are not generated for them, shifted fields and group sub-registers carry no reset value; alternative widths are not value-predicted).",
    "technique": "deterministic seeded history search with step-by-step refinement against an executable reference model (simulation family, empty fault set), shrinking and replay",
    "design_ref": "4.4",
}

CHECKS["C05"] = {
    "engine": "bootlink-sim",
    "level": "exploration",
    "text": "Provisioning sessions and export histories on one SecureBinary31 object (built through the Python API or, for 30 % of the runs, through SecureBinary31.load_from_config with inline / YAML / binary certificate-block configurations; a third of the history runs build another container in the same process first; the signing service may be unreachable for the first requests and the caller retries): seeded key sets (P-256/P-384, 1..4 roots, with/without ISK incl. mixed curves and user data), PCK 128/256, access rights 0..3, encrypted/plain, header fields incl. the clock-derived default timestamp; operations add_command / in-place edits of the public command list / insert_command / set_commands (14 command types, data lengths chosen to end the stream at every offset mod 256) / export / export again / flip one stored bit / deliver over the simulated UART or HID link with link faults. Every export goes through an independent ROM-loader model (RoT key hash, ISK chain, container signature, hash chain, CMAC-KDF block keys, AES-CBC, section header, command walker) that must accept it and decode exactly the supplied command list and header fields; any flipped bit must be rejected; a delivery that reports success must have made the device execute exactly that command list. The fault-free single-export runs are, candidly, generated inputs against a reference model (reported as control_runs); history_runs and faulted_runs are what the simulation adds.",
    "note": "Trusted: the ROM-loader model c05/rom31.py (validated at start-up on reference containers under golden/sb31, incl. rejection of corrupted copies; a failure there is exit 2), the C10 link/device models, the clock seam. ECDSA signature bytes are nondeterministic and masked out of digests.",
    "technique": "deterministic simulation with fault injection: build -> storage fault -> simulated link -> independent ROM-loader model; seeded export histories, bit-flip and link-fault injection",
    "design_ref": "4.5",
}

CHECKS["C04"] = {
    "engine": "bootlink-sim",
    "level": "exploration",
    "text": "SB2.0 (unsigned / signed) and SB2.1 images built through the Python API and, for a quarter of the SB2.1 images, through a generated BD command file or its YAML form (parse_sb21_config -> load_from_config, as nxpimage sb21 export does), with object histories before the judged export (str / update / earlier exports; sections edited after they were put together; equal sections; aliased load buffers; other time zones; another image built first in the same folder) (1..4 sections with arbitrary ids and HMAC-table sizes, all 13 command types with boundary values and load data of every length mod 16, versions, build number, SHA flag, explicit or self-chosen DEK/MAC/nonce/timestamp incl. a counter word next to wrap-around, aware and naive timestamps, RSA-2048/4096 roots, 1..4 root keys in arbitrary RKH slots with the device RKTH computed from what was supplied) are given to two consumers: an independent ROM-loader model (RFC 3394 unwrap, header HMAC for 2.0/2.1, certificate block / RKH table / RSA signature, per-section encrypted header and HMAC table, AES-CTR with the nonce-derived counter measured from file start, command checksums, LOAD CRC) and SPSDK's own parse(). Fault-free: both must yield exactly what was given, and the header fields the supplied values. Storage faults between writer and consumers (bit flip biased to structure boundaries, two-bit CTR malleation that keeps a command header checksum valid, truncation at arbitrary lengths and exactly at section boundaries, wrong KEK, torn replacement) and deliveries through the real McuBoot.receive_sb_file over the simulated link with link faults: each consumer raises or returns equal content, never different content; a delivery that reports success made the device process exactly that content. The fault-free half is, candidly, generated inputs against a reference model (control_runs); the fault half is what the simulation adds.",
    "note": "Trusted: the ROM-loader model c04/rom2.py (validated at start-up on 12 elftosb-made files under golden/sb2, incl. rejection of corrupted copies and of a wrong KEK; a failure there is exit 2), the C10 link/device models, the clock seam. The header content and the certificate block (root key table hash, certificates) SPSDK's parser returns are judged too, fault-free and under storage faults. Two genuine deviations are recorded, not repaired: LOAD lengths are padded to 16, and 4-byte binary blobs of BD load statements are written byte-reversed (known_findings.json).",
    "technique": "deterministic simulation with fault injection: build -> storage fault -> simulated link -> independent ROM-loader model and SPSDK parser; seeded images, bit-flip / truncation / wrong-key / torn-write and link-fault injection",
    "design_ref": "4.6",
}

ENGINES = [
    {"name": "register-refinement", "path": "c11/", "serves_properties": ["C11"], "kind_free_text": "seeded operation histories vs bit-vector reference model"},
    {"name": "entropy-history-sim", "path": "c17/", "serves_properties": ["C17"], "kind_free_text": "fork-per-epoch simulator with injective entropy and simulated wall clock"},
    {"name": "bootlink-sim", "path": "c10/", "serves_properties": ["C10", "C05", "C04"], "kind_free_text": "host/device co-simulation over a simulated UART / USB-HID link with discrete-event time"},
    {"name": "dbcache-sim", "path": "c18/", "serves_properties": ["C18"], "kind_free_text": "fork-zygote process simulator with OS-interface interposition and a seeded scheduler"},
]


def main():
    m = {
        "version": 1,
        "setup_cmd": "/venv/bin/python tools_setup.py",
        "hooks": {
            "guard": "SPSDK_VERIF",
            "enable": "no hook in /repo is needed: every seam (os/builtins.open/fcntl/time/secrets, serial.Serial, libusbsio) is replaced from /verif at run time with PYTHONPATH=/repo; SPSDK_VERIF is reserved and unused",
            "baseline_off_cmd": "cd /repo && /venv/bin/python -m pytest -ra -q -p no:cacheprovider --timeout=900 --continue-on-collection-errors",
            "source_commits": [],
            "add_only": True,
        },
        "engines": [e for e in ENGINES if any(p in CHECKS for p in e["serves_properties"])],
        "checks": [],
        "not_applicable": [{"property_id": k, "reason": v} for k, v in sorted(NA.items())],
        "notes": "All checks: ./check <id> --tier quick|thorough, env VERIF_SEED. Exit 0 held / 1 VIOLATION / 2 harness error. Replay: ./check <id> --replay <file>. See DESIGN.md.",
    }
    for pid, c in sorted(CHECKS.items()):
        m["checks"].append(
            {
                "property_id": pid,
                "quick_cmd": f"./check {pid} --tier quick",
                "thorough_cmd": f"./check {pid} --tier thorough",
                "evidence_file": f"/verif/evidence/{pid}.json",
                "replay_cmd_template": f"./check {pid} --replay {{path}}",
                "engine": c["engine"],
                "level_claimed": {"category": c["level"], "text": c["text"], "design_ref": c["design_ref"]},
                "level_note": c["note"],
                "technique": c["technique"],
            }
        )
    with open(os.path.join(HERE, "MANIFEST.json"), "w") as f:
        json.dump(m, f, indent=1)
        f.write("\n")


if __name__ == "__main__":
    main()
