"""Shared kit: one integer -> plan -> pure execution; pool runner; classify; shrink; replay; evidence.

A property module exposes
    PROP                     property id, e.g. "C18"
    LEVEL                    evidence level string
    RULE                     text for coverage.rule
    COMPONENTS               {"real": [...], "stub": [...]}
    ASSUMPTIONS              [..]
    families(tier)           -> [(family_name, count), ...]
    gen_plan(family, i, rng, tier) -> plan (plain JSON)
    execute(plan)            -> result dict (see below); pure function of plan and the code under VERIF_REPO
    reductions(plan)         -> iterator of simpler candidate plans (used by the shrinker)
    worker_init()            optional, per pool worker
    worker_exit()            optional

execute() result:
    {"records": [ {"oracle":..., "site":..., "msg":...}, ...],   violations found in this run (all of them)
     "digest": hex,                event-log digest (simulator-level facts only)
     "sig": [sched_sig, fault_sig, shape_sig], "nontrivial": bool,
     "faults": {kind: fired_count}, "probes": {name: count},
     "sim_time_us": int, "steps": int, "states": [hashes...] (optional), "obs": {...} (optional)}
"""
from __future__ import annotations

import faulthandler
import hashlib
import json
import os
import random
import signal
import subprocess
import sys
import time as _time
import traceback
from concurrent.futures import ProcessPoolExecutor, as_completed
import multiprocessing

VERIF_DIR = os.path.dirname(os.path.dirname(os.path.abspath(__file__)))
REPO = os.environ.get("VERIF_REPO", "/repo")

_real_time = _time.time
_real_perf = _time.perf_counter


class HarnessError(Exception):
    """Raised for defects in the simulator / models / harness, never for property violations."""


# ----------------------------------------------------------------------------------------------
# environment


def ensure_env() -> None:
    """Re-exec with a fixed hash seed, UTC, and the repo under test first on sys.path."""
    want = {
        "PYTHONHASHSEED": os.environ.get("VERIF_HASHSEED", "0"),
        "TZ": "UTC",
        "PYTHONDONTWRITEBYTECODE": "1",
        "SPSDK_DEBUG_LOGGING_DISABLED": "1",
    }
    need = False
    for k, v in want.items():
        if os.environ.get(k) != v:
            os.environ[k] = v
            need = True
    pp = os.environ.get("PYTHONPATH", "")
    parts = [p for p in pp.split(os.pathsep) if p]
    wanted = [REPO, VERIF_DIR]
    if parts[:2] != wanted:
        parts = wanted + [p for p in parts if p not in wanted]
        os.environ["PYTHONPATH"] = os.pathsep.join(parts)
        need = True
    if need and os.environ.get("VERIF_REEXEC") != "1":
        os.environ["VERIF_REEXEC"] = "1"
        os.execve(sys.executable, [sys.executable] + sys.argv, os.environ)
    for p in reversed(wanted):
        if p in sys.path:
            sys.path.remove(p)
        sys.path.insert(0, p)


def assert_repo_spsdk() -> None:
    import spsdk  # noqa

    f = os.path.realpath(spsdk.__file__)
    if not f.startswith(os.path.realpath(REPO) + os.sep):
        raise HarnessError(f"spsdk imported from {f}, not from {REPO}")


# ----------------------------------------------------------------------------------------------
# determinism helpers


def canon(obj) -> str:
    return json.dumps(obj, sort_keys=True, separators=(",", ":"), default=_default)


def _default(o):
    if isinstance(o, (bytes, bytearray)):
        return {"__b": bytes(o).hex()}
    if isinstance(o, (set, frozenset)):
        return sorted(o)
    raise TypeError(type(o))


def digest(obj) -> str:
    return hashlib.sha256(canon(obj).encode()).hexdigest()


def sub_seed(seed: int, prop: str, family: str, i: int) -> int:
    h = hashlib.sha256(f"{seed}:{prop}:{family}:{i}".encode()).digest()
    return int.from_bytes(h[:8], "big")


class EventLog:
    """Collects simulator-level facts; never reads a clock or a PRNG."""

    def __init__(self, keep: int = 4000) -> None:
        self.h = hashlib.sha256()
        self.n = 0
        self.keep = keep
        self.events: list = []

    def add(self, *ev) -> None:
        s = canon(ev)
        self.h.update(s.encode())
        self.h.update(b"\n")
        self.n += 1
        if len(self.events) < self.keep:
            self.events.append(ev)

    def digest(self) -> str:
        return self.h.hexdigest()


# ----------------------------------------------------------------------------------------------
# known findings


def load_known_findings(prop: str) -> list[dict]:
    path = os.path.join(VERIF_DIR, "known_findings.json")
    if not os.path.exists(path):
        return []
    with open(path) as f:
        data = json.load(f)
    return [e for e in data.get("findings", []) if e.get("property") == prop]


def match_finding(rec: dict, findings: list[dict]) -> dict | None:
    for e in findings:
        if e.get("oracle") != rec.get("oracle"):
            continue
        site = e.get("site")
        if site is None or site == rec.get("site"):
            return e
        if isinstance(site, str) and site.endswith("*") and str(rec.get("site", "")).startswith(site[:-1]):
            return e
    return None


def vclass(rec: dict) -> tuple:
    return (rec.get("oracle"), rec.get("site"))


# ----------------------------------------------------------------------------------------------
# worker side

_MODULE = None
_RUN_WALL_CAP = 300


def _load_module(name: str):
    import importlib

    return importlib.import_module(name)


def _worker_init(modname: str) -> None:
    global _MODULE
    import warnings

    warnings.simplefilter("ignore")  # third-party deprecation chatter (e.g. certificates with negative serial numbers)
    signal.signal(signal.SIGINT, signal.SIG_IGN)
    _MODULE = _load_module(modname)
    if hasattr(_MODULE, "worker_init"):
        _MODULE.worker_init()
    if hasattr(_MODULE, "warm_up"):
        _MODULE.warm_up()  # (only the module being checked: e.g. C05 uses C10's worker_init without its warm-up)


def _alarm(_sig, _frm):
    raise HarnessError("per-run wall-clock watchdog fired")


def run_one(mod, plan: dict) -> dict:
    """Execute one plan with a watchdog; classify harness errors apart from violations.

    A module with ISOLATE_RUNS = True gets every run in a forked copy of the (initialised) worker: whatever the code
    under test keeps in process-level state (class attributes, caches, module globals) then cannot travel from one
    run to the next, so a run is a function of its plan alone and replays in a fresh interpreter. Histories in which
    such state matters are written into the plans themselves (a container, session or object used *before*)."""
    if getattr(mod, "ISOLATE_RUNS", False) and not os.environ.get("VERIF_NO_ISOLATE"):
        return _run_one_forked(mod, plan)
    return _run_one_here(mod, plan)


def _run_one_forked(mod, plan: dict) -> dict:
    import pickle
    import select

    t0 = _real_perf()
    r, w = os.pipe()
    pid = os.fork()
    if pid == 0:
        code = 0
        try:
            os.close(r)
            res = _run_one_here(mod, plan)
            data = pickle.dumps(res, protocol=pickle.HIGHEST_PROTOCOL)
            with os.fdopen(w, "wb") as f:
                f.write(data)
        except BaseException:  # pylint: disable=broad-except
            traceback.print_exc()
            code = 3
        finally:
            os._exit(code)
    os.close(w)
    chunks = []
    deadline = _real_perf() + _RUN_WALL_CAP + 60
    timed_out = False
    while True:
        left = deadline - _real_perf()
        if left <= 0:
            timed_out = True
            break
        ready, _, _ = select.select([r], [], [], min(left, 5.0))
        if not ready:
            continue
        b = os.read(r, 1 << 20)
        if not b:
            break
        chunks.append(b)
    os.close(r)
    if timed_out:
        try:
            os.kill(pid, signal.SIGKILL)
        except OSError:
            pass
    _, status = os.waitpid(pid, 0)
    if timed_out or status != 0 or not chunks:
        return {"records": [], "harness_error": f"isolated run failed: status={status} timed_out={timed_out}", "wall": _real_perf() - t0}
    res = pickle.loads(b"".join(chunks))
    res["wall"] = _real_perf() - t0
    return res


def _run_one_here(mod, plan: dict) -> dict:
    faulthandler.dump_traceback_later(_RUN_WALL_CAP + 30, exit=True)
    old = signal.signal(signal.SIGALRM, _alarm)
    signal.alarm(_RUN_WALL_CAP)
    t0 = _real_perf()
    try:
        res = mod.execute(plan)
        res["harness_error"] = None
    except HarnessError as exc:
        res = {"records": [], "harness_error": f"{exc}\n{traceback.format_exc()}"}
    except BaseException as exc:  # pylint: disable=broad-except
        res = {"records": [], "harness_error": f"{type(exc).__name__}: {exc}\n{traceback.format_exc()}"}
    finally:
        signal.alarm(0)
        signal.signal(signal.SIGALRM, old)
        faulthandler.cancel_dump_traceback_later()
    res["wall"] = _real_perf() - t0
    return res


def _worker_chunk(args):
    seed, tier, items = args
    mod = _MODULE
    out = []
    for family, i in items:
        rng = random.Random(sub_seed(seed, mod.PROP, family, i))
        try:
            plan = mod.gen_plan(family, i, rng, tier)
        except BaseException as exc:  # pylint: disable=broad-except
            out.append((family, i, None, {"records": [], "harness_error": f"gen_plan: {exc}\n{traceback.format_exc()}", "wall": 0}))
            continue
        res = run_one(mod, plan)
        keep_plan = bool(res.get("records")) or bool(res.get("harness_error")) or i < 3
        out.append((family, i, plan if keep_plan else None, res))
    return out


# ----------------------------------------------------------------------------------------------
# fresh-interpreter execution (used for replay and for the shrinker's final confirmation)


def exec_fresh(modname: str, plan: dict, timeout: int = 600) -> dict:
    env = dict(os.environ)
    env["VERIF_REEXEC"] = "1"
    p = subprocess.run(
        [sys.executable, "-c", "import sys; from simkit import core; core._fresh_main()", modname],
        input=canon(plan).encode(),
        capture_output=True,
        env=env,
        cwd=VERIF_DIR,
        timeout=timeout,
    )
    if p.returncode != 0:
        raise HarnessError(f"fresh interpreter failed rc={p.returncode}: {p.stderr.decode()[-2000:]}")
    line = p.stdout.decode().strip().splitlines()[-1]
    return json.loads(line)


def _fresh_main() -> None:
    modname = sys.argv[1]
    plan = json.loads(sys.stdin.read())
    for p in (VERIF_DIR, REPO):
        if p in sys.path:
            sys.path.remove(p)
        sys.path.insert(0, p)
    mod = _load_module(modname)
    if hasattr(mod, "worker_init"):
        mod.worker_init()
    if hasattr(mod, "warm_up"):
        mod.warm_up()
    try:
        res = run_one(mod, plan)
    finally:
        if hasattr(mod, "worker_exit"):
            mod.worker_exit()
    sys.stdout.write("\n" + canon(_slim(res)) + "\n")
    sys.stdout.flush()


def _slim(res: dict) -> dict:
    out = dict(res)
    out.pop("states", None)
    return out


# ----------------------------------------------------------------------------------------------
# shrinking


def shrink(mod, plan: dict, target: tuple, budget_s: float, log=print) -> tuple[dict, int]:
    """Greedy reduction while the same violation class persists. Returns (plan, executions)."""
    t_end = _real_perf() + budget_s
    execs = 0
    best = plan
    improved = True
    while improved and _real_perf() < t_end:
        improved = False
        for cand in mod.reductions(best):
            if _real_perf() >= t_end:
                break
            execs += 1
            res = run_one(mod, cand)
            if res.get("harness_error"):
                continue
            if any(vclass(r) == target for r in res.get("records", [])):
                best = cand
                improved = True
                break
    return best, execs


def ddmin_lists(plan: dict, paths: list[list]) -> "iterator":
    """Yield candidates with chunks of a list (addressed by key path) removed: halves first, then singles."""
    import copy

    for path in paths:
        lst = _get(plan, path)
        if not isinstance(lst, list) or not lst:
            continue
        n = len(lst)
        size = n // 2
        while size >= 1:
            for start in range(0, n, size):
                cand = copy.deepcopy(plan)
                new = lst[:start] + lst[start + size :]
                _set(cand, path, copy.deepcopy(new))
                yield cand
            size //= 2


def _get(obj, path):
    for k in path:
        try:
            obj = obj[k]
        except (KeyError, IndexError, TypeError):
            return None
    return obj


def _set(obj, path, val):
    for k in path[:-1]:
        obj = obj[k]
    obj[path[-1]] = val


# ----------------------------------------------------------------------------------------------
# main driver


def repo_rev() -> dict:
    def git(*a):
        try:
            return subprocess.run(["git", "-C", REPO, *a], capture_output=True, timeout=30).stdout
        except Exception:  # pylint: disable=broad-except
            return b""

    head = git("rev-parse", "HEAD").decode().strip()
    diff = git("diff", "HEAD", "--", "spsdk")
    return {"head": head, "dirty_sha": hashlib.sha256(diff).hexdigest()[:12] if diff else ""}


def main(modname: str, argv: list[str]) -> int:
    ensure_env()
    import argparse

    ap = argparse.ArgumentParser()
    ap.add_argument("--tier", default=os.environ.get("VERIF_TIER", "quick"), choices=["quick", "thorough"])
    ap.add_argument("--replay")
    ap.add_argument("--workers", type=int, default=int(os.environ.get("VERIF_WORKERS", "0")))
    ap.add_argument("--budget", type=float, default=float(os.environ.get("VERIF_BUDGET_S", "0")))
    ap.add_argument("--scale", type=float, default=float(os.environ.get("VERIF_SCALE", "1")))
    ap.add_argument("--family", action="append")
    ap.add_argument("--digests", help="write per-run digests to this file (determinism self-test)")
    ap.add_argument("--no-evidence", action="store_true")
    args = ap.parse_args(argv)

    mod = _load_module(modname)
    prop = mod.PROP
    seed = int(os.environ.get("VERIF_SEED", "0"))
    print(f"VERIF_SEED={seed} property={prop} tier={args.tier} repo={REPO} hashseed={os.environ.get('PYTHONHASHSEED')}", flush=True)

    if args.replay:
        return replay(mod, modname, args.replay)

    t0 = _real_perf()
    workers = args.workers or min(16, os.cpu_count() or 1)
    budget = args.budget or getattr(mod, "BUDGET_S", {"quick": 600, "thorough": 6 * 3600})[args.tier]
    fams = mod.families(args.tier)
    if args.family:
        fams = [(f, n) for f, n in fams if f in args.family]
    items = []
    for fam, n in fams:
        n = max(1, int(n * args.scale))
        items += [(fam, i) for i in range(n)]
    chunk = getattr(mod, "CHUNK", 8)
    # interleave families so that a budget stop still covers all of them
    order = sorted(range(len(items)), key=lambda k: (items[k][1] // chunk, items[k][0]))
    items = [items[k] for k in order]
    chunks = [items[k : k + chunk] for k in range(0, len(items), chunk)]

    results: dict = {}
    harness_errors = []
    done_chunks = 0
    ctx = multiprocessing.get_context("fork")
    stopped_early = False
    with ProcessPoolExecutor(max_workers=workers, mp_context=ctx, initializer=_worker_init, initargs=(modname,)) as ex:
        futs = {}
        it = iter(chunks)
        pending = set()

        def submit_more():
            while len(pending) < workers * 3:
                try:
                    c = next(it)
                except StopIteration:
                    return
                f = ex.submit(_worker_chunk, (seed, args.tier, c))
                futs[f] = c
                pending.add(f)

        submit_more()
        last_report = _real_perf()
        while pending:
            try:
                for f in as_completed(list(pending), timeout=_RUN_WALL_CAP * chunk + 120):
                    pending.discard(f)
                    try:
                        for fam, i, plan, res in f.result():
                            results[(fam, i)] = (plan, res)
                            if res.get("harness_error"):
                                harness_errors.append((fam, i, res["harness_error"]))
                    except BaseException as exc:  # pylint: disable=broad-except
                        harness_errors.append(("?", -1, f"worker died: {type(exc).__name__}: {exc}"))
                    done_chunks += 1
                    break
            except TimeoutError:
                harness_errors.append(("?", -1, "pool wall-clock watchdog fired"))
                break
            if harness_errors and len(harness_errors) > 20:
                break
            if _real_perf() - t0 > budget:
                stopped_early = True
            if not stopped_early:
                submit_more()
            if _real_perf() - last_report > 30:
                last_report = _real_perf()
                print(f"  progress: {len(results)}/{len(items)} runs, {_real_perf() - t0:.0f}s", flush=True)
        if stopped_early:
            for f in pending:
                f.cancel()

    wall_runs = _real_perf() - t0
    keys = sorted(results.keys(), key=lambda k: (k[0], k[1]))
    findings = load_known_findings(prop)

    # ---- aggregate
    n_runs = len(keys)
    sigs = set()
    faults: dict = {}
    probes: dict = {}
    obs: dict = {}
    sim_time = 0
    steps = 0
    states = set()
    scheds = set()
    known_seen: dict = {}
    unmatched = []  # (key, rec)
    per_family: dict = {}
    samples = []
    total_records = 0
    for k in keys:
        plan, res = results[k]
        if res.get("harness_error"):
            continue
        per_family[k[0]] = per_family.get(k[0], 0) + 1
        sg = res.get("sig")
        if sg is not None:
            if res.get("nontrivial", True):
                sigs.add(canon(sg))
            scheds.add(canon(sg[0]))
        for name, v in (res.get("faults") or {}).items():
            faults[name] = faults.get(name, 0) + v
        for name, v in (res.get("probes") or {}).items():
            probes[name] = probes.get(name, 0) + v
        for name, v in (res.get("obs") or {}).items():
            obs[name] = obs.get(name, 0) + v
        sim_time += res.get("sim_time_us", 0)
        steps += res.get("steps", 0)
        for s in res.get("states") or ():
            states.add(s)
        for rec in res.get("records", []):
            total_records += 1
            e = match_finding(rec, findings)
            if e is not None:
                known_seen.setdefault(e["id"], [e, 0])[1] += 1
            else:
                unmatched.append((k, rec))
        if plan is not None and len(samples) < 3 and not res.get("records"):
            samples.append({"family": k[0], "index": k[1], "plan": _trim(plan), "outcome": "held", "digest": res.get("digest")})

    if args.digests:
        with open(args.digests, "w") as f:
            for k in keys:
                plan, res = results[k]
                f.write(f"{k[0]} {k[1]} {res.get('digest')} {canon(sorted(set(map(canon, map(vclass, res.get('records', []))))))}\n")

    rc = 0
    for eid, (e, cnt) in sorted(known_seen.items()):
        print(f"KNOWN-FINDING: property={prop} {e['description']} [id={eid}, seen in {cnt} records]", flush=True)

    viol_out = []
    if unmatched:
        # group by class; report the first run of each class (at most 3 classes shrunk)
        classes: dict = {}
        candidates: dict = {}
        for k, rec in unmatched:
            classes.setdefault(vclass(rec), (k, rec))
            lst = candidates.setdefault(vclass(rec), [])
            if len(lst) < 6 and k not in [c[0] for c in lst] and sum(1 for c in lst if c[0][0] == k[0]) < 2:
                lst.append((k, rec))  # at most two runs per plan family: families differ in what a run contains
        shrink_budget = {"quick": 60, "thorough": 300}[args.tier]
        if hasattr(mod, "worker_init"):
            mod.worker_init()
        if hasattr(mod, "warm_up"):
            mod.warm_up()
        try:
            ordered = sorted(classes.items(), key=lambda kv: (kv[1][0][0], kv[1][0][1]))
            if len(ordered) > 6:
                print(f"  {len(ordered)} distinct violation classes; replay files are written for the first 6", flush=True)
            for ci, (cls, _first) in enumerate(ordered[:6]):
                # a violation that depends on what the worker process did before (state kept in the code under test
                # between runs) does not reproduce from its own plan alone: try the next runs of the same class
                path = None
                for k, rec in candidates[cls]:
                    fam, i = k
                    rng = random.Random(sub_seed(seed, prop, fam, i))
                    plan = mod.gen_plan(fam, i, rng, args.tier)
                    if ci < 3:
                        small, execs = shrink(mod, plan, cls, shrink_budget)
                    else:
                        small, execs = plan, 0
                    path = write_replay(mod, modname, prop, seed, fam, i, small, cls, rec, execs)
                    if path is None and small is not plan:
                        # shrinking ran in this process: if it relied on left-over state, fall back to the plan as generated
                        path = write_replay(mod, modname, prop, seed, fam, i, plan, cls, rec, 0)
                    if path is not None:
                        break
                if path is None:
                    fam, i = candidates[cls][0][0]
                    harness_errors.append((fam, i, f"violation {cls} did not reproduce in a fresh interpreter ({len(candidates[cls])} runs tried)"))
                    continue
                print(f"VIOLATION property={prop} replay={path}", flush=True)
                print(f"  oracle={cls[0]} site={cls[1]} msg={rec.get('msg')}", flush=True)
                viol_out.append({"oracle": cls[0], "site": cls[1], "msg": rec.get("msg"), "replay": path})
                rc = 1
        finally:
            if hasattr(mod, "worker_exit"):
                mod.worker_exit()

    if harness_errors:
        for fam, i, msg in harness_errors[:5]:
            print(f"HARNESS-ERROR property={prop} family={fam} index={i}: {msg}", file=sys.stderr, flush=True)
        if rc == 0:
            rc = 2

    wall = _real_perf() - t0
    if not args.no_evidence and not args.family:
        ev = {
            "property_id": prop,
            "tier": args.tier,
            "seed": seed,
            "level": mod.LEVEL,
            "coverage": {
                "evaluations": n_runs,
                "distinct_nontrivial": len(sigs),
                "rule": mod.RULE,
                "samples": samples or [{"note": "no clean sample kept"}],
                "runs_per_family": per_family,
                "runs_planned": len(items),
                "stopped_by_budget": stopped_early,
                "runs_per_hour": int(n_runs / max(wall_runs, 1e-9) * 3600),
                "seeds": n_runs,
                "workers": workers,
                "sim_time_s": round(sim_time / 1e6, 3),
                "sim_steps": steps,
                "fault_counts": faults,
                "probes": probes,
                "observations": obs,
                "distinct_schedules": len(scheds),
                "distinct_states": len(states),
                "measures": getattr(mod, "MEASURES", {}),
                "components": mod.COMPONENTS,
                "known_findings_seen": {eid: cnt for eid, (e, cnt) in sorted(known_seen.items())},
                "violation_records": total_records,
                "violations": viol_out,
                "harness_errors": len(harness_errors),
                "repo": repo_rev(),
            },
            "assumptions": mod.ASSUMPTIONS,
            "wall_s": round(wall, 2),
            "violations": len(viol_out),
        }
        if hasattr(mod, "evidence_extra"):
            ev["coverage"].update(mod.evidence_extra(args.tier))
        os.makedirs(os.path.join(VERIF_DIR, "evidence"), exist_ok=True)
        tmp = os.path.join(VERIF_DIR, "evidence", f".{prop}.json.tmp")
        with open(tmp, "w") as f:
            json.dump(ev, f, indent=1, sort_keys=True, default=_default)
        os.replace(tmp, os.path.join(VERIF_DIR, "evidence", f"{prop}.json"))
    print(
        f"{prop}: runs={n_runs} distinct_nontrivial={len(sigs)} faults_fired={sum(faults.values())} "
        f"violations={len(viol_out)} known={len(known_seen)} harness_errors={len(harness_errors)} wall={wall:.1f}s rc={rc}",
        flush=True,
    )
    return rc


def _trim(plan, limit=6000):
    s = canon(plan)
    if len(s) <= limit:
        return plan
    return {"truncated": s[:limit]}


def write_replay(mod, modname, prop, seed, fam, i, plan, cls, rec, execs) -> str | None:
    """Confirm in a fresh interpreter (twice: same digest), then write the replay file."""
    r1 = exec_fresh(modname, plan)
    if not any(vclass(r) == cls for r in r1.get("records", [])):
        return None
    r2 = exec_fresh(modname, plan)
    if r1.get("digest") != r2.get("digest"):
        raise HarnessError(f"replay digests differ for {prop} {fam} {i}: {r1.get('digest')} {r2.get('digest')}")
    rec1 = [r for r in r1["records"] if vclass(r) == cls][0]
    d8 = (r1.get("digest") or "0" * 8)[:8]
    c8 = hashlib.sha256(canon(list(cls)).encode()).hexdigest()[:6]
    rel = os.path.join("replays", f"{prop}-{seed}-{fam}-{i}-{d8}-{c8}.json")
    path = os.path.join(VERIF_DIR, rel)
    os.makedirs(os.path.dirname(path), exist_ok=True)
    with open(path, "w") as f:
        json.dump(
            {
                "property": prop,
                "module": modname,
                "VERIF_SEED": seed,
                "family": fam,
                "index": i,
                "plan": plan,
                "violation": {"oracle": cls[0], "site": cls[1], "msg": rec1.get("msg"), "detail": rec1.get("detail")},
                "all_records": r1.get("records"),
                "log_digest": r1.get("digest"),
                "trace": r1.get("trace"),
                "shrink_executions": execs,
                "repo": repo_rev(),
            },
            f,
            indent=1,
            sort_keys=True,
            default=_default,
        )
    return path


def replay(mod, modname: str, path: str) -> int:
    with open(path) as f:
        rp = json.load(f)
    res = exec_fresh(modname, rp["plan"])
    if res.get("harness_error"):
        print(f"HARNESS-ERROR during replay: {res['harness_error']}", file=sys.stderr)
        return 2
    want = (rp["violation"]["oracle"], rp["violation"]["site"])
    got = [r for r in res.get("records", []) if (r.get("oracle"), r.get("site")) == want]
    same_digest = res.get("digest") == rp.get("log_digest")
    print(f"replay: records={len(res.get('records', []))} reproduced={bool(got)} digest_match={same_digest}")
    for r in res.get("records", []):
        print(f"  record oracle={r.get('oracle')} site={r.get('site')} msg={r.get('msg')}")
    if got:
        print(f"VIOLATION property={rp['property']} replay={path}")
        return 1
    return 0
