"""Simulated clock installed on the `time` module (and a datetime subclass) before spsdk is imported."""
from __future__ import annotations

import datetime as _dt
import sys
import time as _time

EPOCH = 1_750_000_000.0

_real = {k: getattr(_time, k) for k in ("time", "sleep", "perf_counter", "monotonic", "time_ns", "perf_counter_ns", "monotonic_ns")}
_real_datetime = _dt.datetime


class SimClock:
    def __init__(self) -> None:
        self.now_us = 0
        self.wall_offset_us = 0  # lets a plan repeat or step back the wall clock without touching monotonic time
        self.sleeps = 0
        self.slept_us = 0
        self.installed = False

    # --- simulator API
    def reset(self) -> None:
        self.now_us = 0
        self.wall_offset_us = 0
        self.sleeps = 0
        self.slept_us = 0

    def advance(self, us: int) -> None:
        if us > 0:
            self.now_us += int(us)

    def wall(self) -> float:
        return EPOCH + (self.now_us + self.wall_offset_us) / 1e6

    # --- what the code under test sees
    def _sleep(self, s) -> None:
        # the standard library polls real child processes with time.sleep (subprocess.Popen.wait with a timeout,
        # e.g. setuptools_scm running git when spsdk/__version__.py is absent): that is a wait for a real process,
        # so it takes real time and no simulated time - otherwise the number of polls would leak into the clock
        # the same holds for filelock polling a lock file that another real process (a sibling worker sharing the
        # SPSDK cache folder) holds: a wait for a real resource, not part of the simulated system
        caller = sys._getframe(1).f_globals.get("__name__") or ""
        if caller == "subprocess" or caller == "filelock" or caller.startswith("filelock."):
            _real["sleep"](min(max(float(s), 0.0), 0.005))
            return
        us = int(max(float(s), 0.0) * 1e6)
        self.sleeps += 1
        self.slept_us += us
        self.now_us += us

    def install(self) -> None:
        if self.installed:
            return
        self.installed = True
        c = self
        _time.sleep = c._sleep
        _time.time = c.wall
        _time.perf_counter = lambda: c.now_us / 1e6
        _time.monotonic = lambda: c.now_us / 1e6
        _time.time_ns = lambda: int(c.wall() * 1e9)
        _time.perf_counter_ns = lambda: c.now_us * 1000
        _time.monotonic_ns = lambda: c.now_us * 1000

        class SimDateTime(_real_datetime):
            @classmethod
            def now(cls, tz=None):
                return cls.fromtimestamp(c.wall(), tz)

            @classmethod
            def utcnow(cls):
                return cls.fromtimestamp(c.wall(), _dt.timezone.utc).replace(tzinfo=None)

            @classmethod
            def today(cls):
                return cls.fromtimestamp(c.wall())

        _dt.datetime = SimDateTime

    def uninstall(self) -> None:
        for k, v in _real.items():
            setattr(_time, k, v)
        _dt.datetime = _real_datetime
        self.installed = False


CLOCK = SimClock()
